package main

import (
	"bytes"
	"crypto/ed25519"
	"encoding/hex"
	"encoding/json"
	"fmt"
	"math"
	"os"
	"path/filepath"
	"math/rand"
	"strings"
	"time"

	biscuit "github.com/biscuit-auth/biscuit-go/v2"
	"github.com/biscuit-auth/biscuit-go/v2/datalog"
	pw "google.golang.org/protobuf/encoding/protowire"
)

// family "adv" (C10): a case of spec/WireAdversary.tla is encoded with a RAW protowire writer (arbitrary field values,
// validly signed by the attacker's own root key) and the whole panel of operations is run on it. A recovered panic is
// reported per operation; a panic on a library goroutine kills this worker process, which the orchestrator attributes
// to the case in flight.
type Knob struct {
	F string `json:"f"`
	V string `json:"v"`
}

type AdvCase struct {
	ID      string `json:"id"`
	Knobs   []Knob `json:"knobs"`
	Gated   bool   `json:"gated"`
	Corrupt int64  `json:"corrupt"` // != 0: seeded byte-level corruption of the encoded token instead of / on top of knobs
	File    string `json:"file"`    // != "": the bytes of a conformance sample of the repository are the starting point
	RootPub string `json:"rootpub"`
}

func msg(parts ...[]byte) []byte { return bytes.Join(parts, nil) }
func fBytes(n int, b []byte) []byte {
	return pw.AppendBytes(pw.AppendTag(nil, pw.Number(n), pw.BytesType), b)
}
func fVar(n int, u uint64) []byte { return pw.AppendVarint(pw.AppendTag(nil, pw.Number(n), pw.VarintType), u) }

func tVar(u uint64) []byte   { return fVar(1, u) }
func tInt(i int64) []byte    { return fVar(2, uint64(i)) }
func tStr(u uint64) []byte   { return fVar(3, u) }
func tDate(u uint64) []byte  { return fVar(4, u) }
func tBytes(b []byte) []byte { return fBytes(5, b) }
func tBool(b bool) []byte {
	if b {
		return fVar(6, 1)
	}
	return fVar(6, 0)
}
func tSet(elts ...[]byte) []byte {
	var s []byte
	for _, e := range elts {
		s = append(s, fBytes(1, e)...)
	}
	return fBytes(7, s)
}
func predW(name uint64, terms ...[]byte) []byte {
	p := fVar(1, name)
	for _, t := range terms {
		p = append(p, fBytes(2, t)...)
	}
	return p
}
func opVal(t []byte) []byte     { return fBytes(1, t) }
func opUn(code uint64) []byte   { return fBytes(2, fVar(1, code)) }
func opBin(code uint64) []byte  { return fBytes(3, fVar(1, code)) }
func exprW(ops ...[]byte) []byte {
	var e []byte
	for _, o := range ops {
		e = append(e, fBytes(1, o)...)
	}
	return e
}
func ruleW(head []byte, body [][]byte, exprs [][]byte) []byte {
	r := fBytes(1, head)
	for _, b := range body {
		r = append(r, fBytes(2, b)...)
	}
	for _, e := range exprs {
		r = append(r, fBytes(3, e)...)
	}
	return r
}
func checkW(queries ...[]byte) []byte {
	var c []byte
	for _, q := range queries {
		c = append(c, fBytes(1, q)...)
	}
	return c
}

const (
	symRight = 4  // "right" default
	symRead  = 0  // "read"
	symRes   = 2  // "resource"
	symQuery = 27 // "query"
)

func advIdx(v string, nsyms int) uint64 {
	switch v {
	case "0":
		return 0
	case "27":
		return 27
	case "28":
		return 28
	case "1023":
		return 1023
	case "1024":
		return 1024
	case "1024+len":
		return 1024 + uint64(nsyms)
	case "2^31":
		return 1 << 31
	case "2^32-1":
		return math.MaxUint32
	case "2^63":
		return 1 << 63
	case "2^64-1":
		return math.MaxUint64
	}
	return 0
}

type advTok struct {
	bytes   []byte
	pub     ed25519.PublicKey
	nblocks int
}

var binCode = map[string]uint64{"lt": 0, "gt": 1, "le": 2, "ge": 3, "eq": 4, "contains": 5, "prefix": 6, "suffix": 7, "regex": 8,
	"add": 9, "sub": 10, "mul": 11, "div": 12, "and": 13, "or": 14, "inter": 15, "union": 16}
var unCode = map[string]uint64{"neg": 0, "par": 1, "len": 2}

// wireOps encodes an operator sequence of the expr family (JSON list of XOp) as an ExpressionV2 message; strings are
// interned into the block's own symbol list
func wireOps(js string, symbols *[]string) []byte {
	var ops []XOp
	if err := json.Unmarshal([]byte(js), &ops); err != nil {
		return exprW()
	}
	var termW func(v Val) []byte
	termW = func(v Val) []byte {
		switch v.T {
		case "int":
			i, _ := v.I.int64()
			return tInt(i)
		case "str":
			str := string(bytesOf(v.S))
			for i, x := range *symbols {
				if x == str {
					return tStr(1024 + uint64(i))
				}
			}
			*symbols = append(*symbols, str)
			return tStr(1024 + uint64(len(*symbols)) - 1)
		case "date":
			u, _ := fromLimbs(*v.D)
			return tDate(u)
		case "bytes":
			return tBytes(bytesOf(v.Y))
		case "bool":
			return tBool(*v.B)
		case "set":
			elts := [][]byte{}
			for _, e := range *v.E {
				elts = append(elts, termW(e))
			}
			return tSet(elts...)
		}
		return []byte{}
	}
	out := [][]byte{}
	for _, op := range ops {
		switch op.K {
		case "val":
			out = append(out, opVal(termW(*op.V)))
		case "var":
			out = append(out, opVal(tVar(uint64(*op.N))))
		case "un":
			out = append(out, opUn(unCode[op.O]))
		case "bin":
			out = append(out, opBin(binCode[op.O]))
		}
	}
	return exprW(out...)
}

func buildAdv(knobs []Knob) advTok {
	k := map[string]string{}
	kseed := int64(17)
	for _, x := range knobs {
		k[x.F] = x.V
		for _, ch := range x.F + "=" + x.V {
			kseed = kseed*131 + int64(ch)
		}
	}
	// next keys are derived deterministically from the case, so that a case (and a byte corruption of it) is
	// exactly reproducible in a fresh process
	det := rand.New(rand.NewSource(kseed))
	genKey := func() (ed25519.PublicKey, ed25519.PrivateKey) {
		seed := make([]byte, ed25519.SeedSize)
		det.Read(seed)
		priv := ed25519.NewKeyFromSeed(seed)
		return priv.Public().(ed25519.PublicKey), priv
	}
	symbols := []string{"file1", "alpha", "beta"}
	nsyms := len(symbols) + 1 // + the second block's symbol
	F1 := uint64(1024)         // "file1"
	// ---- authority block content
	name := uint64(symRight)
	if v, ok := k["fact.name"]; ok {
		name = advIdx(v, nsyms)
	}
	strTerm := F1
	if v, ok := k["fact.term.string"]; ok {
		strTerm = advIdx(v, nsyms)
	}
	terms := [][]byte{tStr(strTerm), tStr(symRead)}
	switch k["fact.term.kind"] {
	case "variable":
		terms = append(terms, tVar(1025))
	case "empty-oneof":
		terms = append(terms, []byte{})
	case "set-empty":
		terms = append(terms, tSet())
	case "set-nested":
		terms = append(terms, tSet(tSet(tInt(1))))
	case "set-mixed":
		terms = append(terms, tSet(tInt(1), tStr(F1)))
	case "set-bytes":
		terms = append(terms, tSet(tBytes([]byte{1}), tBytes([]byte{2, 3})))
	case "set-variable":
		terms = append(terms, tSet(tVar(1025)))
	case "set-duplicates":
		terms = append(terms, tSet(tInt(1), tInt(1), tInt(2)))
	case "date-max":
		terms = append(terms, tDate(math.MaxUint64))
	case "int-min":
		terms = append(terms, tInt(math.MinInt64))
	case "bytes-empty":
		terms = append(terms, tBytes([]byte{}))
	case "bytes-big":
		terms = append(terms, tBytes(bytes.Repeat([]byte{0xab}, 70000)))
	}
	facts := [][]byte{fBytes(1, predW(name, terms...)), fBytes(1, predW(symRes, tStr(F1)))}
	if k["block.extra"] == "facts-500" {
		for i := 0; i < 500; i++ {
			facts = append(facts, fBytes(1, predW(symRes, tInt(int64(i)))))
		}
	}
	// rule: alpha($x) <- right($x, "read")
	X, Y := uint64(1026), uint64(1025) // variables named "beta", "alpha"
	headVar := X
	if v, ok := k["rule.head.var"]; ok {
		if v == "unbound" {
			headVar = Y
		} else {
			headVar = advIdx(v, nsyms)
		}
	}
	bodyName := uint64(symRight)
	if v, ok := k["rule.body.name"]; ok {
		bodyName = advIdx(v, nsyms)
	}
	rules := [][]byte{ruleW(predW(1025, tVar(headVar)), [][]byte{predW(bodyName, tVar(X), tStr(symRead))}, nil)}
	switch k["rule.shape"] {
	case "no-body":
		rules = append(rules, ruleW(predW(1025, tVar(X)), nil, nil))
	case "self-recursive":
		rules = append(rules, ruleW(predW(1025, tVar(X)), [][]byte{predW(1025, tVar(X))}, nil))
	case "head-var-missing":
		rules = append(rules, ruleW(predW(1025, tVar(Y)), [][]byte{predW(symRes, tVar(X))}, nil))
	case "matches-set-bytes":
		facts = append(facts, fBytes(1, predW(1026, tSet(tBytes([]byte{1})))))
		rules = append(rules, ruleW(predW(1025, tInt(1)), [][]byte{predW(1026, tSet(tBytes([]byte{1})))}, nil))
	case "cross-product":
		rules = append(rules, ruleW(predW(1026, tVar(X), tVar(Y)), [][]byte{predW(symRes, tVar(X)), predW(symRes, tVar(Y)), predW(symRes, tVar(1024))}, nil))
	}
	// check: check if resource($x), <expr>
	var ex []byte
	one, zero := opVal(tInt(1)), opVal(tInt(0))
	switch k["check.expr"] {
	case "":
		ex = exprW(opVal(tVar(X)), opVal(tStr(F1)), opBin(4))
	case "no-ops":
		ex = exprW()
	case "only-binary":
		ex = exprW(opBin(9))
	case "only-unary":
		ex = exprW(opUn(0))
	case "two-values":
		ex = exprW(one, zero)
	case "1001-values":
		ops := [][]byte{}
		for i := 0; i < 1001; i++ {
			ops = append(ops, one)
		}
		ex = exprW(ops...)
	case "unary-code-7":
		ex = exprW(one, opUn(7))
	case "binary-code-99":
		ex = exprW(one, one, opBin(99))
	case "unary-code-neg": // the kind is an int32 enum: 2^64-1 on the wire decodes to -1
		ex = exprW(one, opUn(^uint64(0)))
	case "binary-code-neg":
		ex = exprW(one, one, opBin(^uint64(0)))
	case "op-empty-oneof":
		ex = exprW([]byte{})
	case "unknown-variable":
		ex = exprW(opVal(tVar(5000)), one, opBin(4))
	case "div-zero":
		ex = exprW(one, zero, opBin(12), one, opBin(4))
	case "min-div-minus1":
		ex = exprW(opVal(tInt(math.MinInt64)), opVal(tInt(-1)), opBin(12), one, opBin(4))
	case "set-bytes-eq":
		ex = exprW(opVal(tSet(tBytes([]byte{1}))), opVal(tSet(tBytes([]byte{1}))), opBin(4))
	case "set-bytes-union":
		ex = exprW(opVal(tSet(tBytes([]byte{1}))), opVal(tSet(tBytes([]byte{2}))), opBin(16), opUn(2), one, opBin(4))
	case "regex-invalid":
		ex = exprW(opVal(tStr(F1)), opVal(tStr(1024+uint64(len(symbols))-1)), opBin(8)) // pattern = last symbol, replaced below
		symbols[len(symbols)-1] = "(unclosed["
	case "regex-huge":
		ex = exprW(opVal(tStr(F1)), opVal(tStr(1024+uint64(len(symbols))-1)), opBin(8))
		symbols[len(symbols)-1] = strings.Repeat("(a*)*", 200)
	case "type-mix":
		ex = exprW(one, opVal(tStr(F1)), opBin(9))
	case "union-mixed-contains": // a mixed set cannot be a literal, but it can be BUILT at evaluation time
		ex = exprW(opVal(tSet(tInt(1))), opVal(tSet(tStr(F1))), opBin(16), opVal(tInt(2)), opBin(5))
	case "union-mixed-eq":
		ex = exprW(opVal(tSet(tInt(1))), opVal(tSet(tBytes([]byte{1}))), opBin(16), opVal(tSet(tBytes([]byte{1}), tInt(1))), opBin(4))
	case "inter-mixed-length":
		ex = exprW(opVal(tSet(tInt(1), tInt(2))), opVal(tSet(tDate(1))), opBin(16), opVal(tSet(tDate(1), tBool(true))), opBin(15), opUn(2), one, opBin(4))
	default:
		if strings.HasPrefix(k["check.expr"], "x:") { // an explicit operator sequence (the cases of the expr family) inside a token
			ex = wireOps(k["check.expr"][2:], &symbols)
		}
	case "deep-parens":
		ops := [][]byte{opVal(tBool(true))}
		for i := 0; i < 900; i++ {
			ops = append(ops, opUn(1))
		}
		ex = exprW(ops...)
	}
	q := ruleW(predW(symQuery), [][]byte{predW(symRes, tVar(X))}, [][]byte{ex})
	checks := [][]byte{checkW(q)}
	switch k["check.shape"] {
	case "no-queries":
		checks = append(checks, checkW())
	case "empty-query":
		checks = append(checks, checkW(ruleW(predW(symQuery), nil, nil)))
	case "head-unbound":
		checks = append(checks, checkW(ruleW(predW(symQuery, tVar(Y)), [][]byte{predW(symRes, tVar(X))}, nil)))
	case "many-queries":
		qs := [][]byte{}
		for i := 0; i < 300; i++ {
			qs = append(qs, q)
		}
		checks = append(checks, checkW(qs...))
	}
	switch k["block.symbols"] {
	case "default-dup":
		symbols = append(symbols, "read")
	case "self-dup":
		symbols = append(symbols, "file1")
	case "empty-string":
		symbols = append(symbols, "")
	case "huge-string":
		symbols = append(symbols, strings.Repeat("s", 100000))
	case "invalid-utf8":
		symbols = append(symbols, "\xff\xfe")
	}
	block := func(symbols []string, facts, rules, checks [][]byte, isAuthority bool) []byte {
		var b []byte
		foreign := k["foreign"]
		if strings.Contains(foreign, "version-first") { // another encoder may emit fields in a different order
			b = append(b, fVar(3, 3)...)
		}
		for _, s := range symbols {
			b = append(b, fBytes(1, []byte(s))...)
		}
		ctx := "ctx"
		if isAuthority && k["block.extra"] == "context-huge" {
			ctx = strings.Repeat("c", 200000)
		}
		if !strings.Contains(foreign, "no-context") { // the optional context field may be omitted by other encoders
			b = append(b, fBytes(2, []byte(ctx))...)
		}
		switch v := k["block.version"]; {
		case strings.Contains(foreign, "version-first"):
		case !isAuthority || v == "":
			b = append(b, fVar(3, 3)...)
		case v == "absent":
		default:
			b = append(b, fVar(3, advIdx(v, 0)|map[string]uint64{"2": 2, "4": 4}[v])...)
		}
		for _, f := range facts {
			b = append(b, fBytes(4, f)...)
		}
		for _, r := range rules {
			b = append(b, fBytes(5, r)...)
		}
		for _, c := range checks {
			b = append(b, fBytes(6, c)...)
		}
		if isAuthority && k["block.extra"] == "unknown-field" {
			b = append(b, fVar(99, 7)...)
			b = append(b, fBytes(98, []byte("junk"))...)
		}
		return b
	}
	auth := block(symbols, facts, rules, checks, true)
	if k["envelope.shape"] == "block-not-protobuf" {
		auth = []byte{0xff, 0xff, 0xff}
	}
	second := []string{"gamma"}
	if k["block.symbols"] == "cross-block-dup" {
		second = []string{"file1"}
	}
	nExtra := 1
	switch k["envelope.blocks"] {
	case "0":
		nExtra = 0
	case "40":
		nExtra = 40
	}
	pub, priv := fixedKey("adv-root")
	signer := priv
	signed := func(blk []byte, first bool) ([]byte, []byte, ed25519.PrivateKey) {
		np, ns := genKey()
		key := []byte(np)
		alg := uint64(0)
		if first {
			switch k["envelope.key"] {
			case "len0":
				key = []byte{}
			case "len31":
				key = key[:31]
			case "len33":
				key = append(key, 1)
			case "alg1":
				alg = 1
			case "alg-big":
				alg = 1 << 31
			}
		}
		sb := WSigned{Block: blk, Alg: alg, Key: key}
		sig := ed25519.Sign(signer, signedPayloadW(sb, nil))
		if first {
			switch k["envelope.sig"] {
			case "len0":
				sig = []byte{}
			case "len63":
				sig = sig[:63]
			case "len65":
				sig = append(sig, 0)
			}
		}
		sb.Sig = sig
		enc := sb.encode()
		if first && k["envelope.shape"] == "nextkey-missing" {
			enc = msg(fBytes(1, blk), fBytes(3, sig))
		}
		return enc, sig, ns
	}
	var env []byte
	switch k["envelope.rootkeyid"] {
	case "0":
		env = append(env, fVar(1, 0)...)
	case "2^32-1":
		env = append(env, fVar(1, math.MaxUint32)...)
	}
	encA, lastSig, next := signed(auth, true)
	switch k["envelope.shape"] {
	case "no-authority":
	case "authority-empty":
		env = append(env, fBytes(2, []byte{})...)
	default:
		env = append(env, fBytes(2, encA)...)
	}
	lastBlk := WSigned{Block: auth}
	_ = lastBlk
	for i := 0; i < nExtra; i++ {
		signer = next
		syms := []string{}
		if i == 0 {
			syms = second
		}
		blk := block(syms, [][]byte{fBytes(1, predW(symRes, tInt(int64(i))))}, nil,
			[][]byte{checkW(ruleW(predW(symQuery), [][]byte{predW(symRes, tVar(1024))}, nil))}, false)
		var enc []byte
		enc, lastSig, next = signed(blk, false)
		env = append(env, fBytes(3, enc)...)
	}
	_ = lastSig
	seed := next.Seed()
	var proof []byte
	switch k["proof"] {
	case "":
		proof = fBytes(1, seed)
	case "absent":
		proof = []byte{}
	case "both":
		proof = msg(fBytes(1, seed), fBytes(2, bytes.Repeat([]byte{1}, 64)))
	case "secret-len0":
		proof = fBytes(1, []byte{})
	case "secret-len3":
		proof = fBytes(1, seed[:3])
	case "secret-len31":
		proof = fBytes(1, seed[:31])
	case "secret-len33":
		proof = fBytes(1, append(append([]byte{}, seed...), 1))
	case "secret-len64":
		proof = fBytes(1, append(append([]byte{}, seed...), seed...))
	case "final-len0":
		proof = fBytes(2, []byte{})
	case "final-len63":
		proof = fBytes(2, bytes.Repeat([]byte{1}, 63))
	}
	env = append(env, fBytes(4, proof)...)
	return advTok{bytes: env, pub: pub, nblocks: 1 + nExtra}
}

func corrupt(b []byte, seed int64) []byte {
	r := rand.New(rand.NewSource(seed))
	out := append([]byte{}, b...)
	for n := 1 + r.Intn(3); n > 0 && len(out) > 0; n-- {
		i := r.Intn(len(out))
		switch r.Intn(6) {
		case 0:
			out[i] ^= 1 << uint(r.Intn(8))
		case 1:
			out = out[:i]
		case 2:
			j := i + r.Intn(len(out)-i)
			out = append(out[:j:j], append(append([]byte{}, out[i:j]...), out[j:]...)...) // duplicate a slice
		case 3:
			out[i] = byte(r.Intn(256))
		case 4:
			ins := make([]byte, 1+r.Intn(10))
			r.Read(ins)
			for k := range ins {
				if r.Intn(2) == 0 {
					ins[k] |= 0x80 // over-long varints
				}
			}
			out = append(out[:i:i], append(ins, out[i:]...)...)
		case 5:
			if i+1 < len(out) {
				out = append(out[:i], out[i+1:]...)
			}
		}
	}
	return out
}

type panelRes struct {
	Panics   []string `json:"panics"`
	Unm      string   `json:"unmarshal"`
	Verify   string   `json:"verify"`
	Rejected bool     `json:"rejected"`
	Ops      int      `json:"ops"`
}

func guard(res *panelRes, op string, f func()) {
	defer func() {
		if r := recover(); r != nil {
			res.Panics = append(res.Panics, fmt.Sprintf("%s: %v", op, r))
		}
	}()
	res.Ops++
	f()
}

func runPanel(raw []byte, pub ed25519.PublicKey) *panelRes {
	res := &panelRes{Panics: []string{}}
	var tok *biscuit.Biscuit
	guard(res, "Unmarshal", func() {
		t, err := biscuit.Unmarshal(raw)
		if err != nil {
			res.Unm = "error"
			return
		}
		res.Unm = "token"
		tok = t
	})
	// AuthorizerPolicies share the Datalog sub-messages: whatever block bytes we have are also fed to LoadPolicies
	guard(res, "LoadPolicies(raw)", func() {
		_, priv := fixedKey("root")
		b := biscuit.NewBuilder(priv)
		t, _ := b.Build()
		a, _ := t.AuthorizerFor(biscuit.WithSingularRootPublicKey(priv.Public().(ed25519.PublicKey)))
		if a != nil {
			if a.LoadPolicies(raw) == nil {
				a.Authorize()
			}
		}
	})
	if tok == nil {
		res.Rejected = true
		return res
	}
	wopt := biscuit.WithWorldOptions(datalog.WithMaxDuration(3*time.Second), datalog.WithMaxFacts(5000), datalog.WithMaxIterations(50))
	guard(res, "String", func() { _ = tok.String() })
	guard(res, "Code", func() { _ = tok.Code() })
	guard(res, "Checks/GetContext/BlockCount/RootKeyID", func() { _ = tok.Checks(); _ = tok.GetContext(); _ = tok.BlockCount(); _ = tok.RootKeyID() })
	guard(res, "RevocationIds", func() { _ = tok.RevocationIds() })
	guard(res, "Serialize", func() { _, _ = tok.Serialize() })
	guard(res, "GetBlockID", func() {
		tok.GetBlockID(biscuit.Fact{Predicate: biscuit.Predicate{Name: "right", IDs: []biscuit.Term{biscuit.String("file1"), biscuit.String("read")}}})
		tok.GetBlockID(biscuit.Fact{Predicate: biscuit.Predicate{Name: "gamma", IDs: []biscuit.Term{biscuit.Set{biscuit.Bytes([]byte{1})}}}})
	})
	guard(res, "AuthorizerFor(other key)", func() {
		op, _ := fixedKey("other")
		_, _ = tok.AuthorizerFor(biscuit.WithSingularRootPublicKey(op))
	})
	var verr error
	guard(res, "AuthorizerFor(signing key)", func() {
		_, verr = tok.AuthorizerFor(biscuit.WithSingularRootPublicKey(pub), wopt)
		if verr != nil {
			res.Verify = "error"
		} else {
			res.Verify = "ok"
		}
	})
	res.Rejected = res.Verify != "ok"
	mkAuth := func() biscuit.Authorizer {
		a, err := tok.AuthorizerFor(biscuit.WithSingularRootPublicKey(pub), wopt)
		if err != nil {
			a, _ = biscuit.NewVerifier(tok, wopt) // evaluation of unverified content must not crash either
		}
		return a
	}
	P := func(n string, ids ...biscuit.Term) biscuit.Predicate { return biscuit.Predicate{Name: n, IDs: ids} }
	x, y := biscuit.Variable("x"), biscuit.Variable("y")
	guard(res, "Authorize(allow)", func() {
		a := mkAuth()
		a.AddPolicy(biscuit.DefaultAllowPolicy)
		a.Authorize()
		_ = a.PrintWorld()
	})
	guard(res, "Authorize(rules over token facts)", func() {
		a := mkAuth()
		a.AddRule(biscuit.Rule{Head: P("seen", x, y), Body: []biscuit.Predicate{P("right", x, y)}})
		a.AddRule(biscuit.Rule{Head: P("seen3", x), Body: []biscuit.Predicate{P("right", x, y, biscuit.Variable("z"))}})
		a.AddRule(biscuit.Rule{Head: P("g", x), Body: []biscuit.Predicate{P("gamma", x)}})
		a.AddFact(biscuit.Fact{Predicate: P("gamma", biscuit.Set{biscuit.Bytes([]byte{1})})})
		a.AddCheck(biscuit.Check{Queries: []biscuit.Rule{{Head: P("q"), Body: []biscuit.Predicate{P("right", x, y)},
			Expressions: []biscuit.Expression{{biscuit.Value{Term: x}, biscuit.Value{Term: biscuit.String("file1")}, biscuit.BinaryEqual}}}}})
		a.AddPolicy(biscuit.Policy{Kind: biscuit.PolicyKindAllow, Queries: []biscuit.Rule{{Head: P("q"), Body: []biscuit.Predicate{P("seen", x, y)}}}})
		a.Authorize()
		_ = a.PrintWorld()
		a.Authorize()
	})
	guard(res, "Query", func() {
		a := mkAuth()
		a.Query(biscuit.Rule{Head: P("q", x, y), Body: []biscuit.Predicate{P("right", x, y)}})
		a.Query(biscuit.Rule{Head: P("q", x), Body: []biscuit.Predicate{P("alpha", x)}})
		a.Query(biscuit.Rule{Head: P("q", x, y, biscuit.Variable("z")), Body: []biscuit.Predicate{P("right", x, y, biscuit.Variable("z"))}})
		a.Authorize()
		a.Query(biscuit.Rule{Head: P("q", x, y), Body: []biscuit.Predicate{P("right", x, y)}})
	})
	guard(res, "Append", func() {
		bb := tok.CreateBlock()
		bb.AddFact(biscuit.Fact{Predicate: P("appended", biscuit.String("x"))})
		if t2, err := tok.Append(nil2rand(), bb.Build()); err == nil {
			_ = t2.String()
			if a, err := t2.AuthorizerFor(biscuit.WithSingularRootPublicKey(pub), wopt); err == nil {
				a.AddPolicy(biscuit.DefaultAllowPolicy)
				a.Authorize()
			}
		}
	})
	guard(res, "Seal", func() {
		if t2, err := tok.Seal(nil2rand()); err == nil {
			_, _ = t2.Serialize()
			_, _ = t2.AuthorizerFor(biscuit.WithSingularRootPublicKey(pub), wopt)
		}
	})
	return res
}

// family "foreign" (C09, C07): a VALID token whose bytes were produced by another encoder (optional context omitted,
// different field order). The library must treat it like its own tokens: it verifies, re-serializes to the same
// bytes, can be attenuated and sealed, and the sealed / attenuated tokens verify before and after a reload.
func runForeign(c *AdvCase) (interface{}, error) {
	t := buildAdv(c.Knobs)
	bad := []string{}
	wopt := biscuit.WithWorldOptions(datalog.WithMaxDuration(10 * time.Second))
	key := biscuit.WithSingularRootPublicKey(t.pub)
	tok, err := biscuit.Unmarshal(t.bytes)
	if err != nil {
		return map[string]interface{}{"bad": []string{"a valid foreign-encoded token is rejected by Unmarshal: " + err.Error()}}, nil
	}
	if _, err := tok.AuthorizerFor(key, wopt); err != nil {
		bad = append(bad, "foreign-encoded token does not verify: "+err.Error())
	}
	if ser, err := tok.Serialize(); err != nil || !bytes.Equal(ser, t.bytes) {
		bad = append(bad, "Unmarshal(bytes).Serialize() does not reproduce the foreign-encoded bytes")
	}
	verdict := func(x *biscuit.Biscuit) string {
		a, err := x.AuthorizerFor(key, wopt)
		if err != nil {
			return "verify: " + err.Error()
		}
		a.AddPolicy(biscuit.DefaultAllowPolicy)
		return classify(a.Authorize())
	}
	base := verdict(tok)
	sealed, err := tok.Seal(nil2rand())
	if err != nil {
		bad = append(bad, "Seal fails: "+err.Error())
	} else {
		if v := verdict(sealed); v != base {
			bad = append(bad, fmt.Sprintf("sealed token: %s, unsealed: %s", v, base))
		}
		if fmt.Sprint(sealed.Code()) != fmt.Sprint(tok.Code()) || fmt.Sprintf("%x", sealed.RevocationIds()) != fmt.Sprintf("%x", tok.RevocationIds()) {
			bad = append(bad, "sealing changed content or revocation ids")
		}
		ser, _ := sealed.Serialize()
		if re, err := biscuit.Unmarshal(ser); err != nil {
			bad = append(bad, "sealed token does not reload: "+err.Error())
		} else if v := verdict(re); v != base {
			bad = append(bad, fmt.Sprintf("reloaded sealed token: %s, unsealed: %s", v, base))
		}
		if _, err := sealed.Seal(nil2rand()); err == nil {
			bad = append(bad, "a sealed token can be sealed again")
		}
	}
	bb := tok.CreateBlock()
	bb.AddFact(biscuit.Fact{Predicate: biscuit.Predicate{Name: "extra", IDs: []biscuit.Term{biscuit.String("x")}}})
	if t2, err := tok.Append(nil2rand(), bb.Build()); err != nil {
		bad = append(bad, "Append fails: "+err.Error())
	} else {
		if v := verdict(t2); v != base {
			bad = append(bad, fmt.Sprintf("attenuated token: %s, parent: %s", v, base))
		}
		if s2, err := t2.Seal(nil2rand()); err != nil || verdict(s2) != base {
			bad = append(bad, "attenuated-then-sealed token does not verify")
		}
	}
	return map[string]interface{}{"bad": bad, "base": base}, nil
}

func init() {
	families["foreign"] = func(raw json.RawMessage) (interface{}, error) {
		var c AdvCase
		if err := json.Unmarshal(raw, &c); err != nil {
			return nil, err
		}
		return runForeign(&c)
	}
	families["adv"] = func(raw json.RawMessage) (interface{}, error) {
		var c AdvCase
		if err := json.Unmarshal(raw, &c); err != nil {
			return nil, err
		}
		t := buildAdv(c.Knobs)
		b := t.bytes
		if c.File != "" {
			raw, err := os.ReadFile(filepath.Join(samplesDir(), c.File))
			if err != nil {
				return nil, err
			}
			pk, _ := hex.DecodeString(c.RootPub)
			b, t.pub = raw, ed25519.PublicKey(pk)
		}
		if c.Corrupt != 0 {
			b = corrupt(b, c.Corrupt)
		}
		return runPanel(b, t.pub), nil
	}
}
