package main

import (
	"crypto/ed25519"
	"crypto/sha256"
	"encoding/json"
	"errors"
	"fmt"
	"math/rand"
	"regexp"
	"strings"
	"time"

	biscuit "github.com/biscuit-auth/biscuit-go/v2"
	"github.com/biscuit-auth/biscuit-go/v2/datalog"
)

// Abstract token / authorizer content mirrored from spec/Authz.tla.
type ABlock struct {
	F [][]int   `json:"f"`
	R []ARule   `json:"r"`
	C [][]ARule `json:"c"`
}

type APolicy struct {
	Kind string  `json:"kind"`
	Q    []ARule `json:"q"`
}

type AAz struct {
	F [][]int   `json:"f"`
	R []ARule   `json:"r"`
	C [][]ARule `json:"c"`
	P []APolicy `json:"p"`
}

type AToken struct {
	Auth   ABlock   `json:"auth"`
	Blocks []ABlock `json:"blocks"`
	Via    string   `json:"via"` // mem | bytes | sealed | sealedbytes
}

type AOp struct {
	Op   string `json:"op"`
	A    int    `json:"a"`    // authorizer slot
	T    int    `json:"t"`    // token index (new)
	Az   *AAz   `json:"az"`   // add
	Q    *ARule `json:"q"`    // query
	Slot int    `json:"slot"` // save / load
	Dup  bool   `json:"dup"`  // add: add every fact twice
	Shuf int64  `json:"shuf"` // add: shuffle presentation order with this seed (0 = as given)
	MF   int    `json:"mf"`   // new: world limits (0 = default)
	MI   int    `json:"mi"`
	Ctor string `json:"ctor"` // new: "" = AuthorizerFor, "authorizer" = Authorizer(), "newverifier" = NewVerifier
	Mode string `json:"mode"` // add: "" = AddFact/AddRule/..., "block" = AddBlock+AddPolicy, "authorizer" = AddAuthorizer,
	// "text" = content printed as Datalog source, parsed with parser.FromStringAuthorizer, then AddAuthorizer
}

type AuthzCase struct {
	ID     string   `json:"id"`
	Emb    int64    `json:"emb"`
	Toks   []AToken `json:"toks"`
	Script []AOp    `json:"script"`
	Shuf   int64    `json:"shuf"` // shuffle token content presentation
}

func allRules(c *AuthzCase) int {
	cmp := 0
	upd := func(rs ...[]ARule) {
		if k := cmpOfRules(rs...); k > cmp {
			cmp = k
		}
	}
	blk := func(b ABlock) {
		upd(b.R)
		for _, ch := range b.C {
			upd(ch)
		}
	}
	for _, t := range c.Toks {
		blk(t.Auth)
		for _, b := range t.Blocks {
			blk(b)
		}
	}
	for _, op := range c.Script {
		if op.Az != nil {
			upd(op.Az.R)
			for _, ch := range op.Az.C {
				upd(ch)
			}
			for _, p := range op.Az.P {
				upd(p.Q)
			}
		}
		if op.Q != nil {
			upd([]ARule{*op.Q})
		}
	}
	return cmp
}

func rootKey(seed int64) (ed25519.PublicKey, ed25519.PrivateKey) {
	h := sha256.Sum256([]byte(fmt.Sprintf("verif-root-%d", seed)))
	priv := ed25519.NewKeyFromSeed(h[:])
	return priv.Public().(ed25519.PublicKey), priv
}

func (e *Embed) Check(qs []ARule) biscuit.Check {
	c := biscuit.Check{}
	for _, q := range qs {
		c.Queries = append(c.Queries, e.Rule(q))
	}
	return c
}

func (e *Embed) Policy(p APolicy) biscuit.Policy {
	out := biscuit.Policy{Kind: biscuit.PolicyKindAllow}
	if p.Kind == "deny" {
		out.Kind = biscuit.PolicyKindDeny
	}
	for _, q := range p.Q {
		out.Queries = append(out.Queries, e.Rule(q))
	}
	return out
}

func shuffled(n int, seed int64) []int {
	idx := make([]int, n)
	for i := range idx {
		idx[i] = i
	}
	if seed != 0 {
		rand.New(rand.NewSource(seed)).Shuffle(n, func(i, j int) { idx[i], idx[j] = idx[j], idx[i] })
	}
	return idx
}

func shufRules(rs []ARule, seed int64) []ARule {
	out := make([]ARule, len(rs))
	for i, k := range shuffled(len(rs), seed) {
		out[i] = rs[k]
	}
	return out
}

// buildToken builds the abstract token through the real builders.
func buildToken(e *Embed, t AToken, priv ed25519.PrivateKey, shuf int64) (*biscuit.Biscuit, error) {
	b := biscuit.NewBuilder(priv)
	for _, k := range shuffled(len(t.Auth.F), shuf) {
		if err := b.AddAuthorityFact(e.Fact(t.Auth.F[k])); err != nil {
			return nil, err
		}
	}
	for _, k := range shuffled(len(t.Auth.R), shuf+1) {
		if err := b.AddAuthorityRule(e.Rule(t.Auth.R[k])); err != nil {
			return nil, err
		}
	}
	for _, k := range shuffled(len(t.Auth.C), shuf+2) {
		if err := b.AddAuthorityCheck(e.Check(shufRules(t.Auth.C[k], shuf))); err != nil {
			return nil, err
		}
	}
	tok, err := b.Build()
	if err != nil {
		return nil, err
	}
	for _, blk := range t.Blocks {
		bb := tok.CreateBlock()
		for _, k := range shuffled(len(blk.F), shuf) {
			if err := bb.AddFact(e.Fact(blk.F[k])); err != nil {
				return nil, err
			}
		}
		for _, k := range shuffled(len(blk.R), shuf+1) {
			if err := bb.AddRule(e.Rule(blk.R[k])); err != nil {
				return nil, err
			}
		}
		for _, k := range shuffled(len(blk.C), shuf+2) {
			if err := bb.AddCheck(e.Check(shufRules(blk.C[k], shuf))); err != nil {
				return nil, err
			}
		}
		tok, err = tok.Append(nil2rand(), bb.Build())
		if err != nil {
			return nil, err
		}
	}
	switch t.Via {
	case "sealed", "sealedbytes":
		tok, err = tok.Seal(nil2rand())
		if err != nil {
			return nil, err
		}
	}
	switch t.Via {
	case "bytes", "sealedbytes":
		ser, err := tok.Serialize()
		if err != nil {
			return nil, err
		}
		tok, err = biscuit.Unmarshal(ser)
		if err != nil {
			return nil, err
		}
	}
	return tok, nil
}

func classify(err error) string {
	switch {
	case err == nil:
		return "ok"
	case errors.Is(err, biscuit.ErrPolicyDenied):
		return "denied"
	case errors.Is(err, biscuit.ErrNoMatchingPolicy):
		return "nomatch"
	case errors.Is(err, datalog.ErrWorldRunLimitMaxFacts):
		return "maxfacts"
	case errors.Is(err, datalog.ErrWorldRunLimitMaxIterations):
		return "maxiter"
	case errors.Is(err, datalog.ErrWorldRunLimitTimeout):
		return "timeout"
	}
	return "failed"
}

type AObs struct {
	V    string    `json:"v,omitempty"`
	Msg  string    `json:"msg,omitempty"`
	Rows [][]int   `json:"rows,omitempty"`
	BW   [][][]int `json:"bw,omitempty"`
	OK   *bool     `json:"ok,omitempty"`
	Err  string    `json:"err,omitempty"`
}

func runAuthz(c *AuthzCase) (interface{}, error) {
	e := newEmbed(c.Emb, allRules(c))
	pub, priv := rootKey(c.Emb % 5)
	toks := []*biscuit.Biscuit{}
	for _, t := range c.Toks {
		tok, err := buildToken(e, t, priv, c.Shuf)
		if err != nil {
			return map[string]interface{}{"build_error": err.Error()}, nil
		}
		toks = append(toks, tok)
	}
	preds := predIndex(e, 12)
	preds[e.Pred(99)] = 99
	azs := map[int]biscuit.Authorizer{}
	slots := map[int][]byte{}
	obs := []AObs{}
	yes, no := true, false
	for _, op := range c.Script {
		a := azs[op.A]
		switch op.Op {
		case "new":
			wopts := []datalog.WorldOption{datalog.WithMaxDuration(20 * time.Second)}
			if op.MF > 0 {
				wopts = append(wopts, datalog.WithMaxFacts(op.MF))
			}
			if op.MI > 0 {
				wopts = append(wopts, datalog.WithMaxIterations(op.MI))
			}
			var na biscuit.Authorizer
			var err error
			switch op.Ctor {
			case "authorizer":
				na, err = toks[op.T].Authorizer(pub, biscuit.WithWorldOptions(wopts...))
			case "newverifier":
				na, err = biscuit.NewVerifier(toks[op.T], biscuit.WithWorldOptions(wopts...))
			default:
				na, err = toks[op.T].AuthorizerFor(biscuit.WithSingularRootPublicKey(pub), biscuit.WithWorldOptions(wopts...))
			}
			if err != nil {
				obs = append(obs, AObs{OK: &no, Err: err.Error()})
			} else {
				azs[op.A] = na
				obs = append(obs, AObs{OK: &yes})
			}
		case "add":
			z := op.Az
			if op.Mode != "" && !op.Dup {
				pa := biscuit.ParsedAuthorizer{}
				for _, k := range shuffled(len(z.F), op.Shuf) {
					pa.Block.Facts = append(pa.Block.Facts, e.Fact(z.F[k]))
				}
				for _, k := range shuffled(len(z.R), op.Shuf+1) {
					pa.Block.Rules = append(pa.Block.Rules, e.Rule(z.R[k]))
				}
				for _, k := range shuffled(len(z.C), op.Shuf+2) {
					pa.Block.Checks = append(pa.Block.Checks, e.Check(shufRules(z.C[k], op.Shuf)))
				}
				for _, p := range z.P {
					pp := p
					pp.Q = shufRules(p.Q, op.Shuf)
					pa.Policies = append(pa.Policies, e.Policy(pp))
				}
				mode := op.Mode
				if mode == "text" {
					if src, ok := datalogSource(pa); ok {
						parsed, err := sharedParser.Authorizer(src, nil)
						if err != nil {
							return map[string]interface{}{"harness": "generated Datalog source does not parse: " + err.Error() + " :: " + src}, nil
						}
						pa = parsed
					}
					mode = "authorizer"
				}
				if mode == "block" {
					a.AddBlock(pa.Block)
					for _, p := range pa.Policies {
						a.AddPolicy(p)
					}
				} else {
					a.AddAuthorizer(pa)
				}
				obs = append(obs, AObs{OK: &yes})
				break
			}
			for _, k := range shuffled(len(z.F), op.Shuf) {
				a.AddFact(e.Fact(z.F[k]))
				if op.Dup {
					a.AddFact(e.Fact(z.F[k]))
				}
			}
			for _, k := range shuffled(len(z.R), op.Shuf+1) {
				a.AddRule(e.Rule(z.R[k]))
			}
			for _, k := range shuffled(len(z.C), op.Shuf+2) {
				a.AddCheck(e.Check(shufRules(z.C[k], op.Shuf)))
			}
			for _, p := range z.P { // policies are ORDERED: never shuffled (queries inside one are)
				pp := p
				pp.Q = shufRules(p.Q, op.Shuf)
				a.AddPolicy(e.Policy(pp))
			}
			obs = append(obs, AObs{OK: &yes})
		case "authorize":
			err := a.Authorize()
			o := AObs{V: classify(err)}
			if err != nil {
				o.Msg = trunc(err.Error(), 200)
			}
			obs = append(obs, o)
		case "query":
			fs, err := a.Query(e.Rule(*op.Q))
			if err != nil {
				obs = append(obs, AObs{V: classify(err), Msg: trunc(err.Error(), 200), Rows: [][]int{}})
				break
			}
			rows := [][]int{}
			for _, f := range fs {
				row := []int{}
				for _, t := range f.Predicate.IDs {
					row = append(row, e.Abs(t))
				}
				rows = append(rows, row)
			}
			sortRows(rows)
			obs = append(obs, AObs{V: "ok", Rows: rows})
		case "world":
			w, syms, _, _ := biscuit.VerifAuthorizerState(a)
			obs = append(obs, AObs{Rows: e.absFacts(w.Facts(), syms, preds)})
		case "bworlds":
			_, syms, bws, _ := biscuit.VerifAuthorizerState(a)
			o := AObs{BW: [][][]int{}}
			for _, bw := range bws {
				o.BW = append(o.BW, e.absFacts(bw.Facts(), syms, preds))
			}
			obs = append(obs, o)
		case "reset":
			a.Reset()
			obs = append(obs, AObs{OK: &yes})
		case "save":
			b, err := a.SerializePolicies()
			if err != nil {
				obs = append(obs, AObs{OK: &no, Err: trunc(err.Error(), 200)})
			} else {
				slots[op.Slot] = b
				obs = append(obs, AObs{OK: &yes})
			}
		case "load":
			err := a.LoadPolicies(slots[op.Slot])
			if err != nil {
				obs = append(obs, AObs{OK: &no, Err: trunc(err.Error(), 200)})
			} else {
				obs = append(obs, AObs{OK: &yes})
			}
		default:
			return nil, fmt.Errorf("bad op %q", op.Op)
		}
	}
	return map[string]interface{}{"obs": obs}, nil
}

func trunc(s string, n int) string {
	if len(s) > n {
		return s[:n]
	}
	return s
}

func init() {
	families["authz"] = func(raw json.RawMessage) (interface{}, error) {
		var c AuthzCase
		if err := json.Unmarshal(raw, &c); err != nil {
			return nil, err
		}
		return runAuthz(&c)
	}
}


var identRe = regexp.MustCompile(`^[a-z][a-zA-Z0-9_:]*$`)
var varRe = regexp.MustCompile(`^[a-zA-Z0-9_:]+$`)

// datalogSource prints builder-level content in the documented grammar (ok = false when a value has no literal form:
// negative integers, strings with quotes, empty sets).
func datalogSource(pa biscuit.ParsedAuthorizer) (string, bool) {
	ok := true
	var term func(t biscuit.Term) string
	term = func(t biscuit.Term) string {
		switch x := t.(type) {
		case biscuit.Integer:
			if x < 0 {
				ok = false
			}
			return fmt.Sprint(int64(x))
		case biscuit.String:
			if strings.ContainsAny(string(x), "\"\\\n") {
				ok = false
			}
			return "\"" + string(x) + "\""
		case biscuit.Variable:
			if !varRe.MatchString(string(x)) {
				ok = false
			}
			return "$" + string(x)
		case biscuit.Date:
			return time.Time(x).UTC().Format(time.RFC3339)
		case biscuit.Bytes:
			return fmt.Sprintf("hex:%x", []byte(x))
		case biscuit.Bool:
			return fmt.Sprint(bool(x))
		case biscuit.Set:
			if len(x) == 0 {
				ok = false
			}
			el := []string{}
			for _, e := range x {
				el = append(el, term(e))
			}
			return "[" + strings.Join(el, ", ") + "]"
		}
		ok = false
		return "?"
	}
	pred := func(p biscuit.Predicate) string {
		if !identRe.MatchString(p.Name) {
			ok = false // not a name the grammar can spell
		}
		ts := []string{}
		for _, t := range p.IDs {
			ts = append(ts, term(t))
		}
		return p.Name + "(" + strings.Join(ts, ", ") + ")"
	}
	binTok := map[biscuit.BinaryOp]string{biscuit.BinaryLessThan: "<", biscuit.BinaryLessOrEqual: "<=", biscuit.BinaryEqual: "==", biscuit.BinaryAdd: "+", biscuit.BinaryDiv: "/"}
	expr := func(e biscuit.Expression) string { // the shapes Embed.Guard produces
		st := []string{}
		for _, op := range e {
			switch x := op.(type) {
			case biscuit.Value:
				st = append(st, term(x.Term))
			case biscuit.UnaryOp:
				if len(st) < 1 {
					ok = false
					return ""
				}
				a := st[len(st)-1]
				switch x {
				case biscuit.UnaryNegate:
					st[len(st)-1] = "!(" + a + ")"
				case biscuit.UnaryLength:
					st[len(st)-1] = a + ".length()"
				default:
					ok = false
				}
			case biscuit.BinaryOp:
				if len(st) < 2 {
					ok = false
					return ""
				}
				a, b := st[len(st)-2], st[len(st)-1]
				st = st[:len(st)-2]
				if x == biscuit.BinaryPrefix {
					st = append(st, a+".starts_with("+b+")")
				} else if x == biscuit.BinaryRegex {
					st = append(st, a+".matches("+b+")")
				} else if x == biscuit.BinaryIntersection {
					st = append(st, a+".intersection("+b+")")
				} else if x == biscuit.BinaryContains {
					st = append(st, a+".contains("+b+")")
				} else if x == biscuit.BinaryAnd {
					st = append(st, a+" && "+b)
				} else if tk, found := binTok[x]; found {
					st = append(st, a+" "+tk+" "+b)
				} else {
					ok = false
				}
			}
		}
		if len(st) != 1 {
			ok = false
			return ""
		}
		return st[0]
	}
	body := func(r biscuit.Rule) string {
		parts := []string{}
		for _, p := range r.Body {
			parts = append(parts, pred(p))
		}
		for _, e := range r.Expressions {
			parts = append(parts, expr(e))
		}
		if len(parts) == 0 {
			return "true"
		}
		return strings.Join(parts, ", ")
	}
	var b strings.Builder
	for _, f := range pa.Block.Facts {
		b.WriteString(pred(f.Predicate) + ";\n")
	}
	for _, r := range pa.Block.Rules {
		if len(r.Body) == 0 && len(r.Expressions) == 0 {
			ok = false // a rule needs a body in the grammar
		}
		b.WriteString(pred(r.Head) + " <- " + body(r) + ";\n")
	}
	for _, c := range pa.Block.Checks {
		qs := []string{}
		for _, q := range c.Queries {
			qs = append(qs, body(q))
		}
		b.WriteString("check if " + strings.Join(qs, " or ") + ";\n")
	}
	for _, p := range pa.Policies {
		qs := []string{}
		for _, q := range p.Queries {
			qs = append(qs, body(q))
		}
		kw := "allow if "
		if p.Kind == biscuit.PolicyKindDeny {
			kw = "deny if "
		}
		b.WriteString(kw + strings.Join(qs, " or ") + ";\n")
	}
	return b.String(), ok
}
