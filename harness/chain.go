package main

import (
	"bytes"
	"crypto/ed25519"
	"crypto/sha256"
	"encoding/json"
	"errors"
	"fmt"

	biscuit "github.com/biscuit-auth/biscuit-go/v2"
)

// family "chain": behaviours of spec/Chain.tla materialised on real tokens. Honest operations go through the real
// Builder / Append / Seal / Serialize; the attacker's token is assembled on the BYTES with the independent codec
// (wire.go) and crypto/ed25519, using only the secrets the model says the attacker knows.
type MSig struct {
	Key     int             `json:"key"`
	Payload json.RawMessage `json:"payload"`
}

type MBlock struct {
	C    int  `json:"c"`
	Next int  `json:"next"`
	Sig  MSig `json:"sig"`
}

type MProof struct {
	T   string `json:"t"`
	K   int    `json:"k"`
	Sig *MSig  `json:"sig"`
}

type MToken struct {
	Bl  []MBlock `json:"bl"`
	Pf  MProof   `json:"pf"`
	Rid int      `json:"rid"`
}

type MHop struct {
	Op  string `json:"op"`
	I   int    `json:"i"`
	C   int    `json:"c"`
	Rid int    `json:"rid"`
}

type ChainCase struct {
	ID      string   `json:"id"`
	Hops    []MHop   `json:"hops"`
	Tokens  []MToken `json:"tokens"`
	Given   []int    `json:"given"`
	Atk     *MToken  `json:"atk"`
	Secrets []int    `json:"secrets"`
	Emb     int64    `json:"emb"`
}

func sigKey(s MSig) string {
	var v interface{}
	json.Unmarshal(s.Payload, &v)
	b, _ := json.Marshal([]interface{}{s.Key, v})
	return string(b)
}

func fixedKey(name string) (ed25519.PublicKey, ed25519.PrivateKey) {
	h := sha256.Sum256([]byte("verif-chain-" + name))
	priv := ed25519.NewKeyFromSeed(h[:])
	return priv.Public().(ed25519.PublicKey), priv
}

type chainWorld struct {
	pub     map[int][]byte             // model key id -> real public key
	seed    map[int][]byte             // model key id -> real secret seed (only those that became known on the wire)
	sig     map[string][]byte          // model signature term -> real signature
	content map[int][]byte             // content id -> real marshalled block
	real    []*biscuit.Biscuit
	wire    []*WBiscuit
}

func contentFact(c int) biscuit.Fact {
	return biscuit.Fact{Predicate: biscuit.Predicate{Name: "resource", IDs: []biscuit.Term{biscuit.Integer(int64(c))}}}
}

func (w *chainWorld) learn(i int, m MToken) error {
	ser, err := w.real[i].Serialize()
	if err != nil {
		return err
	}
	wb, err := decodeBiscuit(ser)
	if err != nil {
		return err
	}
	w.wire = append(w.wire, wb)
	all := wb.all()
	if len(all) != len(m.Bl) {
		return fmt.Errorf("token %d: %d blocks on the wire, model has %d", i+1, len(all), len(m.Bl))
	}
	for j, sb := range all {
		w.pub[m.Bl[j].Next] = sb.Key
		w.sig[sigKey(m.Bl[j].Sig)] = sb.Sig
		w.content[m.Bl[j].C] = sb.Block
	}
	if m.Pf.T == "sec" {
		w.seed[m.Pf.K] = wb.ProofSecret
	} else if m.Pf.Sig != nil {
		w.sig[sigKey(*m.Pf.Sig)] = wb.ProofFinal
	}
	return nil
}

func (w *chainWorld) ensureContent(c int, rootPriv ed25519.PrivateKey) error {
	if _, ok := w.content[c]; ok {
		return nil
	}
	b := biscuit.NewBuilder(rootPriv)
	b.AddAuthorityFact(contentFact(c))
	t, err := b.Build()
	if err != nil {
		return err
	}
	ser, _ := t.Serialize()
	wb, err := decodeBiscuit(ser)
	if err != nil {
		return err
	}
	w.content[c] = wb.Authority.Block
	return nil
}

// realSig returns the bytes of a model signature term: a blob seen on the wire, or a fresh signature made with a
// secret the attacker knows over the payload the term denotes.
func (w *chainWorld) realSig(s MSig, known map[int]bool) ([]byte, error) {
	if b, ok := w.sig[sigKey(s)]; ok {
		return b, nil
	}
	if !known[s.Key] {
		return nil, fmt.Errorf("model asks for a fresh signature under key %d which the attacker does not know", s.Key)
	}
	seed, ok := w.seed[s.Key]
	if !ok {
		return nil, fmt.Errorf("no real secret for key %d", s.Key)
	}
	var p []json.RawMessage
	if err := json.Unmarshal(s.Payload, &p); err != nil {
		return nil, err
	}
	var kind string
	var c, next int
	json.Unmarshal(p[0], &kind)
	json.Unmarshal(p[1], &c)
	json.Unmarshal(p[2], &next)
	sb := WSigned{Block: w.content[c], Alg: 0, Key: w.pub[next]}
	var last []byte
	if kind == "s" {
		var ls MSig
		if err := json.Unmarshal(p[3], &ls); err != nil {
			return nil, err
		}
		var err error
		last, err = w.realSig(ls, known)
		if err != nil {
			return nil, err
		}
	}
	return ed25519.Sign(ed25519.NewKeyFromSeed(seed), signedPayloadW(sb, last)), nil
}

func runChain(c *ChainCase) (interface{}, error) {
	rootPub, rootPriv := fixedKey("root")
	otherPub, _ := fixedKey("other")
	atkPub, atkPriv := fixedKey("attacker")
	w := &chainWorld{pub: map[int][]byte{1: rootPub, 2: otherPub, 3: atkPub}, seed: map[int][]byte{3: atkPriv.Seed()},
		sig: map[string][]byte{}, content: map[int][]byte{}}
	obs := map[string]interface{}{}
	honest := []map[string]interface{}{}
	allRev := map[string]int{}
	for i, h := range c.Hops {
		var t *biscuit.Biscuit
		var err error
		switch h.Op {
		case "build":
			opts := []interface{}{}
			_ = opts
			var b biscuit.Builder
			if h.Rid > 0 {
				b = biscuit.NewBuilder(rootPriv, biscuit.WithRootKeyID(uint32(ridValue(h.Rid))))
			} else {
				b = biscuit.NewBuilder(rootPriv)
			}
			b.AddAuthorityFact(contentFact(h.C))
			t, err = b.Build()
		case "append":
			p := w.real[h.I-1]
			bb := p.CreateBlock()
			bb.AddFact(contentFact(h.C))
			t, err = p.Append(nil2rand(), bb.Build())
		case "seal":
			t, err = w.real[h.I-1].Seal(nil2rand())
		}
		if err != nil {
			return map[string]interface{}{"harness": fmt.Sprintf("honest op %d %s: %v", i+1, h.Op, err)}, nil
		}
		if (i+int(c.Emb%2))%2 == 1 { // every other token travels as bytes (which ones depends on the case: both parities occur)
			ser, _ := t.Serialize()
			t, err = biscuit.Unmarshal(ser)
			if err != nil {
				return map[string]interface{}{"harness": fmt.Sprintf("honest op %d reload: %v", i+1, err)}, nil
			}
		}
		w.real = append(w.real, t)
		if err := w.learn(i, c.Tokens[i]); err != nil {
			return map[string]interface{}{"harness": err.Error()}, nil
		}
		// honest-side observations (C01 completeness, C09, C16, C17)
		ho := map[string]interface{}{}
		_, e1 := t.AuthorizerFor(biscuit.WithSingularRootPublicKey(rootPub))
		_, e2 := t.AuthorizerFor(biscuit.WithSingularRootPublicKey(otherPub))
		ho["root"], ho["other"] = e1 == nil, e2 == nil
		if id := t.RootKeyID(); id != nil {
			ho["rid"] = int(*id)
		} else {
			ho["rid"] = -1
		}
		// C16: lookup by identifier under the six key maps of Chain!KeyMaps
		R, O := rootPub, otherPub
		maps := []struct {
			keys map[uint32]ed25519.PublicKey
			def  *ed25519.PublicKey
		}{
			{map[uint32]ed25519.PublicKey{7: R, 0xffffffff: R, 0: R}, &R},
			{map[uint32]ed25519.PublicKey{7: O, 0xffffffff: R, 0: R}, &R},
			{map[uint32]ed25519.PublicKey{0xffffffff: O}, &R},
			{map[uint32]ed25519.PublicKey{7: R}, nil},
			{map[uint32]ed25519.PublicKey{0xffffffff: R, 0: O}, &O},
			{map[uint32]ed25519.PublicKey{7: nil, 0xffffffff: R}, &R},
		}
		lk := []string{}
		for _, m := range maps {
			_, err := t.AuthorizerFor(biscuit.WithRootPublicKeys(m.keys, m.def))
			switch {
			case err == nil:
				lk = append(lk, "ok")
			case errors.Is(err, biscuit.ErrNoPublicKeyAvailable):
				lk = append(lk, "nokey")
			default:
				lk = append(lk, "badsig")
			}
		}
		ho["lookups"] = lk
		revs := t.RevocationIds()
		wb := w.wire[i]
		ho["nrev"] = len(revs)
		same := len(revs) == len(wb.all())
		for j, sb := range wb.all() {
			if j < len(revs) && !bytes.Equal(revs[j], sb.Sig) {
				same = false
			}
		}
		ho["rev_is_sig"] = same
		prefix := true
		if h.Op != "build" {
			pr := w.real[h.I-1].RevocationIds()
			if len(pr) > len(revs) {
				prefix = false
			}
			for j := range pr {
				if j < len(revs) && !bytes.Equal(pr[j], revs[j]) {
					prefix = false
				}
			}
		}
		ho["rev_prefix"] = prefix
		// uniqueness across signing operations: identical ids only for the same model signature term
		dup := false
		for j, r := range revs {
			k := string(r)
			mk := sigKey(c.Tokens[i].Bl[j].Sig)
			_ = mk
			if prev, ok := allRev[k]; ok && prev != sigOp(c, i, j) {
				dup = true
			}
			allRev[k] = sigOp(c, i, j)
		}
		ho["rev_dup"] = dup
		// the identifiers are independent values: a caller building keys with append(id, suffix...) changes neither the
		// other identifiers of the returned set nor what the token reports next time (stable)
		for j := range revs {
			_ = append(revs[j], ':', 'r', 'e', 'v', 'o', 'k', 'e', 'd')
		}
		again := t.RevocationIds()
		indep := len(again) == len(wb.all())
		for j, sb := range wb.all() {
			if j < len(revs) && !bytes.Equal(revs[j][:len(sb.Sig)], sb.Sig) || j < len(again) && !bytes.Equal(again[j], sb.Sig) {
				indep = false
			}
		}
		ho["rev_independent"] = indep
		// sealed tokens can be neither extended nor sealed again (before and after reload)
		if c.Tokens[i].Pf.T == "fin" {
			bb := t.CreateBlock()
			bb.AddFact(contentFact(1))
			_, ea := t.Append(nil2rand(), bb.Build())
			_, es := t.Seal(nil2rand())
			ser, _ := t.Serialize()
			rt, er := biscuit.Unmarshal(ser)
			var ea2, es2 error = errors.New("reload failed"), errors.New("reload failed")
			if er == nil {
				bb2 := rt.CreateBlock()
				bb2.AddFact(contentFact(1))
				_, ea2 = rt.Append(nil2rand(), bb2.Build())
				_, es2 = rt.Seal(nil2rand())
			}
			ho["sealed_frozen"] = ea != nil && es != nil && ea2 != nil && es2 != nil
			ho["seal_same_code"] = fmt.Sprint(t.Code()) == fmt.Sprint(w.real[h.I-1].Code()) && t.String() != ""
		}
		honest = append(honest, ho)
	}
	obs["honest"] = honest
	if c.Atk != nil {
		known := map[int]bool{}
		for _, k := range c.Secrets {
			known[k] = true
			if _, ok := w.seed[k]; !ok {
				return map[string]interface{}{"harness": fmt.Sprintf("attacker should know secret %d but it never appeared on the wire of a given token", k)}, nil
			}
		}
		wb := &WBiscuit{}
		for j, b := range c.Atk.Bl {
			if err := w.ensureContent(b.C, rootPriv); err != nil {
				return nil, err
			}
			sig, err := w.realSig(b.Sig, known)
			if err != nil {
				return map[string]interface{}{"harness": err.Error()}, nil
			}
			pub, ok := w.pub[b.Next]
			if !ok {
				return map[string]interface{}{"harness": fmt.Sprintf("unknown key %d", b.Next)}, nil
			}
			sb := WSigned{Block: w.content[b.C], Alg: 0, Key: pub, Sig: sig}
			if j == 0 {
				wb.Authority = sb
			} else {
				wb.Blocks = append(wb.Blocks, sb)
			}
		}
		if c.Atk.Pf.T == "sec" {
			wb.ProofSecret = w.seed[c.Atk.Pf.K]
		} else {
			sig, err := w.realSig(*c.Atk.Pf.Sig, known)
			if err != nil {
				return map[string]interface{}{"harness": err.Error()}, nil
			}
			wb.ProofFinal = sig
		}
		tok, err := biscuit.Unmarshal(wb.encode())
		if err != nil {
			obs["accept"] = false
			obs["stage"] = "unmarshal: " + trunc(err.Error(), 100)
		} else {
			_, err = tok.AuthorizerFor(biscuit.WithSingularRootPublicKey(rootPub))
			obs["accept"] = err == nil
			if err != nil {
				obs["stage"] = "verify: " + trunc(err.Error(), 100)
			}
		}
	}
	return obs, nil
}

// sigOp identifies the signing operation that produced block j of honest token i: the creation index of the first
// honest token that carries this model signature term.
func sigOp(c *ChainCase, i, j int) int {
	k := sigKey(c.Tokens[i].Bl[j].Sig)
	for a := range c.Tokens {
		for _, b := range c.Tokens[a].Bl {
			if sigKey(b.Sig) == k {
				return a*100 + 0
			}
		}
	}
	return -1
}

func ridValue(r int) uint64 {
	switch r {
	case 7:
		return 7
	case 8:
		return 0xffffffff
	case 9:
		return 0
	}
	return uint64(r)
}

func init() {
	families["chain"] = func(raw json.RawMessage) (interface{}, error) {
		var c ChainCase
		if err := json.Unmarshal(raw, &c); err != nil {
			return nil, err
		}
		return runChain(&c)
	}
}
