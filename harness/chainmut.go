package main

import (
	"bytes"
	"crypto/ed25519"
	"encoding/json"
	"fmt"
	"math/rand"

	biscuit "github.com/biscuit-auth/biscuit-go/v2"
)

// family "chainmut" (L3 of C01/C09): honest tokens built by the real library are mutated ON THE WIRE by the catalogue of
// the property, abstracted into terms of spec/Chain.tla and submitted to the library. TLC (TraceChain) decides acceptance.
type MutCase struct {
	ID   string `json:"id"`
	Seed int64  `json:"seed"`
}

type absWorld struct {
	keys     [][]byte // known key bytes; id = index: 1 root, 2 other, 3 attacker, 10.. others
	keyIDs   []int
	contents [][]byte
	nextKey  int
}

func (a *absWorld) keyID(k []byte) int {
	for i, x := range a.keys {
		if bytes.Equal(x, k) {
			return a.keyIDs[i]
		}
	}
	a.keys = append(a.keys, append([]byte{}, k...))
	a.keyIDs = append(a.keyIDs, a.nextKey)
	a.nextKey++
	return a.nextKey - 1
}

func (a *absWorld) contentID(b []byte) int {
	for i, x := range a.contents {
		if bytes.Equal(x, b) {
			return i + 1
		}
	}
	a.contents = append(a.contents, append([]byte{}, b...))
	return len(a.contents)
}

type ASig struct {
	Key     int           `json:"key"`
	Payload []interface{} `json:"payload"`
}

func junkSig() ASig { return ASig{Key: 0, Payload: []interface{}{"b", 0, 0}} }

// which known key validates sig over payload?
func (a *absWorld) validator(payload, sig []byte) int {
	if len(sig) != ed25519.SignatureSize {
		return 0
	}
	for i, k := range a.keys {
		if len(k) == ed25519.PublicKeySize && ed25519.Verify(ed25519.PublicKey(k), payload, sig) {
			return a.keyIDs[i]
		}
	}
	return 0
}

func (a *absWorld) abstract(w *WBiscuit) (tok map[string]interface{}, malformed bool) {
	bl := []map[string]interface{}{}
	var lastSig ASig
	all := w.all()
	for _, sb := range all {
		if len(sb.Key) != 32 || len(sb.Sig) != 64 || sb.Alg != 0 {
			malformed = true
		}
		if _, err := decodeBlock(sb.Block); err != nil {
			malformed = true
		} else if blk, _ := decodeBlock(sb.Block); blk.Version == nil || *blk.Version != 3 {
			malformed = true
		}
	}
	for _, sb := range all {
		c := a.contentID(sb.Block)
		next := a.keyID(sb.Key)
		s := junkSig()
		if k := a.validator(signedPayloadW(sb, nil), sb.Sig); k != 0 {
			s = ASig{Key: k, Payload: []interface{}{"b", c, next}}
		}
		bl = append(bl, map[string]interface{}{"c": c, "next": next, "sig": s})
		lastSig = s
	}
	var pf map[string]interface{}
	last := all[len(all)-1]
	switch {
	case w.ProofSecret != nil && w.ProofFinal == nil:
		if len(w.ProofSecret) != 32 {
			pf = map[string]interface{}{"t": "sec", "k": 0} // no key corresponds to a seed of the wrong size
		} else {
			pub := ed25519.NewKeyFromSeed(w.ProofSecret).Public().(ed25519.PublicKey)
			pf = map[string]interface{}{"t": "sec", "k": a.keyID(pub)}
		}
	case w.ProofFinal != nil && w.ProofSecret == nil:
		s := ASig{Key: 0, Payload: []interface{}{"s", 0, 0, junkSig()}}
		if k := a.validator(signedPayloadW(last, last.Sig), w.ProofFinal); k != 0 {
			s = ASig{Key: k, Payload: []interface{}{"s", a.contentID(last.Block), a.keyID(last.Key), lastSig}}
		}
		pf = map[string]interface{}{"t": "fin", "sig": s}
	default:
		pf = map[string]interface{}{"t": "sec", "k": 0}
		malformed = true
	}
	rid := 0
	if w.RootKeyID != nil {
		rid = 1
	}
	return map[string]interface{}{"bl": bl, "pf": pf, "rid": rid}, malformed
}

func flip(b []byte, r *rand.Rand) []byte {
	out := append([]byte{}, b...)
	if len(out) == 0 {
		return []byte{1}
	}
	i := r.Intn(len(out))
	out[i] ^= 1 << uint(r.Intn(8))
	return out
}

func runMut(c *MutCase) (interface{}, error) {
	r := rand.New(rand.NewSource(c.Seed))
	rootPub, rootPriv := fixedKey("root")
	otherPub, _ := fixedKey("other")
	atkPub, atkPriv := fixedKey("attacker")
	a := &absWorld{keys: [][]byte{rootPub, otherPub, atkPub}, keyIDs: []int{1, 2, 3}, nextKey: 10}
	// two honest tokens T and U
	mk := func() (*WBiscuit, error) {
		b := biscuit.NewBuilder(rootPriv)
		b.AddAuthorityFact(contentFact(1 + r.Intn(3)))
		t, err := b.Build()
		if err != nil {
			return nil, err
		}
		for i, n := 0, r.Intn(5); i < n; i++ {
			bb := t.CreateBlock()
			bb.AddFact(contentFact(1 + r.Intn(3)))
			if t, err = t.Append(nil2rand(), bb.Build()); err != nil {
				return nil, err
			}
		}
		if r.Intn(3) == 0 {
			if t, err = t.Seal(nil2rand()); err != nil {
				return nil, err
			}
		}
		ser, err := t.Serialize()
		if err != nil {
			return nil, err
		}
		return decodeBiscuit(ser)
	}
	T, err := mk()
	if err != nil {
		return nil, err
	}
	U, err := mk()
	if err != nil {
		return nil, err
	}
	for _, w := range []*WBiscuit{T, U} { // the attacker (and the abstraction) knows every public value of T and U
		for _, sb := range w.all() {
			a.keyID(sb.Key)
			a.contentID(sb.Block)
		}
	}
	get := func(w *WBiscuit, i int) *WSigned {
		if i == 0 {
			return &w.Authority
		}
		return &w.Blocks[i-1]
	}
	n := 1 + len(T.Blocks)
	i, j := r.Intn(n), r.Intn(n)
	uj := r.Intn(1 + len(U.Blocks))
	resign := func(w *WBiscuit, from int, key ed25519.PrivateKey) { // re-sign blocks from..end with a chain of attacker keys
		k := key
		for p := from; p < 1+len(w.Blocks); p++ {
			sb := get(w, p)
			np, ns, _ := ed25519.GenerateKey(nil)
			sb.Key = np
			sb.Sig = ed25519.Sign(k, signedPayloadW(*sb, nil))
			k = ns
			if p == len(w.Blocks) {
				w.ProofSecret, w.ProofFinal = ns.Seed(), nil
			}
		}
	}
	desc := ""
	switch m := r.Intn(26); m {
	case 0:
		desc = "identity"
	case 1:
		desc = fmt.Sprintf("flip a bit in block %d content", i)
		get(T, i).Block = flip(get(T, i).Block, r)
	case 2:
		desc = fmt.Sprintf("flip a bit in announced key %d", i)
		get(T, i).Key = flip(get(T, i).Key, r)
	case 3:
		desc = fmt.Sprintf("flip a bit in signature %d", i)
		get(T, i).Sig = flip(get(T, i).Sig, r)
	case 4:
		desc = "flip a bit in the proof"
		if T.ProofSecret != nil {
			T.ProofSecret = flip(T.ProofSecret, r)
		} else {
			T.ProofFinal = flip(T.ProofFinal, r)
		}
	case 5:
		desc = fmt.Sprintf("substitute content of block %d by that of block %d", i, j)
		get(T, i).Block = get(T, j).Block
	case 6:
		desc = fmt.Sprintf("substitute content of block %d by block %d of another token", i, uj)
		get(T, i).Block = get(U, uj).Block
	case 7:
		desc = fmt.Sprintf("substitute signature %d by signature %d", i, j)
		get(T, i).Sig = get(T, j).Sig
	case 8:
		desc = fmt.Sprintf("substitute signed block %d by block %d of another token", i, uj)
		*get(T, i) = *get(U, uj)
	case 9:
		desc = fmt.Sprintf("substitute key %d by key %d of another token", i, uj)
		get(T, i).Key = get(U, uj).Key
	case 10:
		desc = fmt.Sprintf("swap blocks %d and %d", i, j)
		x, y := *get(T, i), *get(T, j)
		*get(T, i), *get(T, j) = y, x
	case 11:
		if len(T.Blocks) > 0 {
			k := r.Intn(len(T.Blocks))
			desc = fmt.Sprintf("remove block %d", k+1)
			T.Blocks = append(T.Blocks[:k:k], T.Blocks[k+1:]...)
		}
	case 12:
		k := r.Intn(n)
		desc = fmt.Sprintf("truncate to the first %d block(s), keep the proof", k+1)
		T.Blocks = T.Blocks[:k]
	case 13:
		k := r.Intn(n)
		desc = fmt.Sprintf("truncate to the first %d block(s), proof = attacker secret", k+1)
		T.Blocks = T.Blocks[:k]
		T.ProofSecret, T.ProofFinal = atkPriv.Seed(), nil
	case 14:
		desc = fmt.Sprintf("insert a copy of block %d at the end", i)
		T.Blocks = append(T.Blocks, *get(T, i))
	case 15:
		desc = fmt.Sprintf("re-key: blocks %d.. re-signed with attacker keys", i)
		resign(T, i, atkPriv)
	case 16:
		desc = "proof = 64 bytes: junk || last announced public key"
		last := get(T, n-1)
		T.ProofSecret, T.ProofFinal = append(bytes.Repeat([]byte{7}, 32), last.Key...), nil
	case 17:
		l := []int{0, 3, 31, 33, 64}[r.Intn(5)]
		desc = fmt.Sprintf("proof = %d-byte secret", l)
		T.ProofSecret, T.ProofFinal = bytes.Repeat([]byte{9}, l), nil
	case 18:
		desc = "proof = final signature made with the attacker's key"
		last := get(T, n-1)
		T.ProofSecret, T.ProofFinal = nil, ed25519.Sign(atkPriv, signedPayloadW(*last, last.Sig))
	case 19:
		desc = "proof taken from another token"
		T.ProofSecret, T.ProofFinal = U.ProofSecret, U.ProofFinal
	case 20:
		if T.ProofSecret != nil {
			desc = "holder seals the token on the wire with the secret it holds (legitimate)"
			last := get(T, n-1)
			T.ProofFinal = ed25519.Sign(ed25519.NewKeyFromSeed(T.ProofSecret), signedPayloadW(*last, last.Sig))
			T.ProofSecret = nil
		} else {
			desc = "unseal: final signature replaced by a random secret"
			T.ProofSecret, T.ProofFinal = bytes.Repeat([]byte{5}, 32), nil
		}
	case 21:
		if T.ProofSecret != nil {
			desc = "holder appends a block signed with the secret it holds (legitimate)"
			np, ns, _ := ed25519.GenerateKey(nil)
			sb := WSigned{Block: get(U, uj).Block, Alg: 0, Key: np}
			sb.Sig = ed25519.Sign(ed25519.NewKeyFromSeed(T.ProofSecret), signedPayloadW(sb, nil))
			T.Blocks = append(T.Blocks, sb)
			T.ProofSecret = ns.Seed()
		} else {
			desc = "append to a sealed token with an attacker key"
			np, ns, _ := ed25519.GenerateKey(nil)
			sb := WSigned{Block: get(U, uj).Block, Alg: 0, Key: np}
			sb.Sig = ed25519.Sign(atkPriv, signedPayloadW(sb, nil))
			T.Blocks = append(T.Blocks, sb)
			T.ProofSecret, T.ProofFinal = ns.Seed(), nil
		}
	case 22:
		l := []int{31, 33, 0}[r.Intn(3)]
		desc = fmt.Sprintf("announced key %d resized to %d bytes", i, l)
		k := append(get(T, i).Key, 0, 0)
		get(T, i).Key = k[:l]
	case 23:
		l := []int{63, 65, 0}[r.Intn(3)]
		desc = fmt.Sprintf("signature %d resized to %d bytes", i, l)
		s := append(get(T, i).Sig, 0, 0)
		get(T, i).Sig = s[:l]
	case 24:
		desc = fmt.Sprintf("algorithm of key %d set to 1", i)
		get(T, i).Alg = 1
	case 25:
		desc = "authority re-signed by the attacker's own root"
		resign(T, 0, atkPriv)
	}
	tok, malformed := a.abstract(T)
	raw := T.encode()
	accept, stage := false, ""
	func() {
		defer func() {
			if rec := recover(); rec != nil {
				accept, stage = false, fmt.Sprintf("PANIC: %v", rec)
			}
		}()
		t, err := biscuit.Unmarshal(raw)
		if err != nil {
			stage = "unmarshal: " + trunc(err.Error(), 80)
			return
		}
		_, err = t.AuthorizerFor(biscuit.WithSingularRootPublicKey(rootPub))
		accept = err == nil
		if err != nil {
			stage = "verify: " + trunc(err.Error(), 80)
		}
	}()
	return map[string]interface{}{"tok": tok, "malformed": malformed, "accept": accept, "stage": stage, "desc": desc, "blocks": n}, nil
}

func init() {
	families["chainmut"] = func(raw json.RawMessage) (interface{}, error) {
		var c MutCase
		if err := json.Unmarshal(raw, &c); err != nil {
			return nil, err
		}
		return runMut(&c)
	}
}
