package main

import (
	"crypto/sha256"
	"encoding/json"
	"fmt"
	"strings"
	"sync"
	"time"

	biscuit "github.com/biscuit-auth/biscuit-go/v2"
	"github.com/biscuit-auth/biscuit-go/v2/datalog"
	"github.com/biscuit-auth/biscuit-go/v2/parser"
)

// family "conc" (built with -race): the operation multisets exported from spec/Threads.tla run concurrently on ONE
// shared token (obtained from Unmarshal, so buffers have runtime-chosen capacity), each goroutine with its own
// authorizer; shared parsed values and a shared Parser are used as well. A data race kills the process
// (GORACE=halt_on_error=1); otherwise every goroutine's result must equal the result of running alone.
type ConcCase struct {
	ID      string   `json:"id"`
	Ops     []string `json:"ops"`
	Reps    int      `json:"reps"`
	NBlocks int      `json:"nblocks"`
	Emb     int64    `json:"emb"`
}

type concEnv struct {
	tok    *biscuit.Biscuit
	pub    []byte
	p      parser.Parser
	fact   biscuit.Fact
	rule   biscuit.Rule
	check  biscuit.Check
	policy biscuit.Policy
}

func concToken(nblocks int, emb int64) (*biscuit.Biscuit, []byte, error) {
	pub, priv := rootKey(7)
	b := biscuit.NewBuilder(priv)
	b.AddAuthorityFact(biscuit.Fact{Predicate: biscuit.Predicate{Name: "right", IDs: []biscuit.Term{biscuit.String("file1"), biscuit.String("read")}}})
	b.AddAuthorityRule(biscuit.Rule{Head: biscuit.Predicate{Name: "can", IDs: []biscuit.Term{biscuit.Variable("f")}},
		Body: []biscuit.Predicate{{Name: "right", IDs: []biscuit.Term{biscuit.Variable("f"), biscuit.String("read")}}}})
	// the length of the stored authority bytes varies with the case, and with it the spare capacity the allocator leaves behind
	// them after Unmarshal (0 .. >100 bytes): code that writes behind the stored bytes "when it fits" gets its chance
	b.SetContext(strings.Repeat("x", int(emb%97)*13))
	tok, err := b.Build()
	if err != nil {
		return nil, nil, err
	}
	for i := 0; i < nblocks; i++ {
		bb := tok.CreateBlock()
		for k := 0; k <= int(emb+int64(i))%3; k++ { // 1..3 fresh symbols per block: varies table length / capacity
			bb.AddFact(biscuit.Fact{Predicate: biscuit.Predicate{Name: fmt.Sprintf("blk%d_%d", i, k), IDs: []biscuit.Term{biscuit.Integer(int64(k))}}})
		}
		bb.AddCheck(biscuit.Check{Queries: []biscuit.Rule{{Head: biscuit.Predicate{Name: "q"}, Body: []biscuit.Predicate{{Name: "can", IDs: []biscuit.Term{biscuit.String("file1")}}}}}})
		tok, err = tok.Append(nil2rand(), bb.Build())
		if err != nil {
			return nil, nil, err
		}
	}
	ser, err := tok.Serialize()
	if err != nil {
		return nil, nil, err
	}
	tok, err = biscuit.Unmarshal(ser)
	return tok, pub, err
}

func (e *concEnv) do(op string, g int) string {
	h := func(b []byte) string { s := sha256.Sum256(b); return fmt.Sprintf("%x", s[:6]) }
	wopt := biscuit.WithWorldOptions(datalog.WithMaxDuration(30 * time.Second))
	switch op {
	case "verify":
		_, err := e.tok.AuthorizerFor(biscuit.WithSingularRootPublicKey(e.pub), wopt)
		return fmt.Sprint(err)
	case "authorize":
		a, err := e.tok.AuthorizerFor(biscuit.WithSingularRootPublicKey(e.pub), wopt)
		if err != nil {
			return err.Error()
		}
		a.AddFact(e.fact) // shared parsed values
		a.AddRule(e.rule)
		a.AddCheck(e.check)
		a.AddPolicy(e.policy)
		// every goroutine also evaluates expressions of its own (distinct regular expressions, string and set operators)
		pats := []string{"^file[0-9]$", "^f.*2$", "le1$"}
		rx, _ := parser.FromStringCheck(fmt.Sprintf(`check if resource($r), $r.matches("%s"), $r.starts_with("fi"), [1, 2, %d].contains(%d)`, pats[g%3], g%3+2, g%3+2))
		a.AddCheck(rx)
		v := classify(a.Authorize())
		fs, err := a.Query(e.rule)
		return fmt.Sprintf("%s %d %v", v, len(fs), err)
	case "string":
		return h([]byte(e.tok.String() + strings.Join(e.tok.Code(), "|")))
	case "serialize":
		b, err := e.tok.Serialize()
		return fmt.Sprintf("%s %v %x", h(b), err, e.tok.RevocationIds()[0][:4])
	case "getid":
		i, err := e.tok.GetBlockID(biscuit.Fact{Predicate: biscuit.Predicate{Name: "fresh_lookup_symbol", IDs: []biscuit.Term{biscuit.String("another_fresh")}}})
		j, err2 := e.tok.GetBlockID(biscuit.Fact{Predicate: biscuit.Predicate{Name: "blk0_0", IDs: []biscuit.Term{biscuit.Integer(0)}}})
		// every position a new symbol can occur in: the predicate name, a top-level term, inside a set (with known name and terms)
		k, err3 := e.tok.GetBlockID(biscuit.Fact{Predicate: biscuit.Predicate{Name: "right", IDs: []biscuit.Term{biscuit.String("file1"), biscuit.String(fmt.Sprintf("fresh_term_%d", g))}}})
		l, err4 := e.tok.GetBlockID(biscuit.Fact{Predicate: biscuit.Predicate{Name: "right", IDs: []biscuit.Term{biscuit.String("file1"),
			biscuit.Set{biscuit.String(fmt.Sprintf("fresh_in_set_%d", g)), biscuit.String("read")}}}})
		return fmt.Sprint(i, err, j, err2, k, err3, l, err4)
	case "build":
		bb := e.tok.CreateBlock()
		bb.AddFact(biscuit.Fact{Predicate: biscuit.Predicate{Name: "built_by", IDs: []biscuit.Term{biscuit.String("worker")}}})
		bb.AddFact(e.fact)
		bb.AddRule(e.rule)
		blk := bb.Build()
		return strings.Join(biscuit.VerifBlockSymbols(blk), ",")
	case "append":
		bb := e.tok.CreateBlock()
		bb.AddFact(biscuit.Fact{Predicate: biscuit.Predicate{Name: "appended_by", IDs: []biscuit.Term{biscuit.String("worker")}}})
		nt, err := e.tok.Append(nil2rand(), bb.Build())
		if err != nil {
			return err.Error()
		}
		a, err := nt.AuthorizerFor(biscuit.WithSingularRootPublicKey(e.pub), wopt)
		if err != nil {
			return "child: " + err.Error()
		}
		a.AddPolicy(biscuit.DefaultAllowPolicy)
		return classify(a.Authorize()) + " " + strings.Join(nt.Code(), "|")
	case "seal":
		nt, err := e.tok.Seal(nil2rand())
		if err != nil {
			return err.Error()
		}
		_, err = nt.AuthorizerFor(biscuit.WithSingularRootPublicKey(e.pub), wopt)
		return fmt.Sprint(err) + " " + strings.Join(nt.Code(), "|")
	case "parse":
		r, err := e.p.Rule(`allowed($f) <- right($f, "read"), $f.starts_with("file")`, nil)
		c, err2 := e.p.Check(`check if can("file1") or can({p})`, parser.ParametersMap{"p": biscuit.String("x")})
		return fmt.Sprint(len(r.Body), err, len(c.Queries), err2)
	}
	return "?"
}

func runConc(c *ConcCase) (interface{}, error) {
	tok, pub, err := concToken(c.NBlocks, c.Emb)
	if err != nil {
		return nil, err
	}
	p := parser.New()
	env := &concEnv{tok: tok, pub: pub, p: p}
	env.fact, _ = p.Fact(`resource("file1")`, nil)
	env.rule, _ = p.Rule(`seen($r) <- resource($r), can($r)`, nil)
	env.check, _ = p.Check(`check if resource("file1")`, nil)
	env.policy, _ = p.Policy(`allow if seen("file1")`, nil)
	bad := []string{}
	var mu sync.Mutex
	for rep := 0; rep < c.Reps; rep++ {
		tok, _, err := concToken(c.NBlocks, c.Emb) // fresh shared token per repetition
		if err != nil {
			return nil, err
		}
		env.tok = tok
		// what each operation yields when it runs alone on this very token
		alone := map[string]string{}
		for g, op := range c.Ops {
			k := fmt.Sprintf("%s/%d", op, g%3)
			if _, ok := alone[k]; !ok {
				alone[k] = env.do(op, g)
			}
		}
		start := make(chan struct{})
		var wg sync.WaitGroup
		for g, op := range c.Ops {
			wg.Add(1)
			go func(g int, op string) {
				defer wg.Done()
				<-start
				got := env.do(op, g)
				if want := alone[fmt.Sprintf("%s/%d", op, g%3)]; got != want {
					mu.Lock()
					if len(bad) < 5 {
						bad = append(bad, fmt.Sprintf("goroutine %d (%s) got %q, alone it gets %q", g, op, trunc(got, 120), trunc(want, 120)))
					}
					mu.Unlock()
				}
			}(g, op)
		}
		close(start)
		wg.Wait()
	}
	return map[string]interface{}{"bad": bad}, nil
}

func init() {
	families["conc"] = func(raw json.RawMessage) (interface{}, error) {
		var c ConcCase
		if err := json.Unmarshal(raw, &c); err != nil {
			return nil, err
		}
		return runConc(&c)
	}
}
