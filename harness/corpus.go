package main

import (
	"bytes"
	"crypto/ed25519"
	"encoding/hex"
	"encoding/json"
	"fmt"
	"os"
	"path/filepath"

	biscuit "github.com/biscuit-auth/biscuit-go/v2"
)

// family "corpus": the conformance samples shipped with the repository (tokens written by the reference implementation,
// i.e. by ANOTHER encoder) as inputs: independent decode, byte-identical round trip, seal / attenuate / reload.
type CorpusCase struct {
	ID      string `json:"id"`
	File    string `json:"file"`
	RootPub string `json:"rootpub"`
}

func samplesDir() string {
	d := os.Getenv("VERIF_REPO")
	if d == "" {
		d = "/repo"
	}
	return filepath.Join(d, "samples", "data", "current")
}

func runCorpus(c *CorpusCase) (interface{}, error) {
	raw, err := os.ReadFile(filepath.Join(samplesDir(), c.File))
	if err != nil {
		return nil, err
	}
	pubBytes, err := hex.DecodeString(c.RootPub)
	if err != nil {
		return nil, err
	}
	pub := ed25519.PublicKey(pubBytes)
	out := map[string]interface{}{}
	bad := []string{}
	// independent decode
	syms := [][]string{}
	versions := []int{}
	if wb, err := decodeBiscuit(raw); err == nil {
		for _, sb := range wb.all() {
			if blk, err := decodeBlock(sb.Block); err == nil {
				s := blk.Symbols
				if s == nil {
					s = []string{}
				}
				syms = append(syms, s)
				v := -1
				if blk.Version != nil {
					v = int(*blk.Version)
				}
				versions = append(versions, v)
			}
		}
	}
	out["symbols"], out["versions"] = syms, versions
	tok, err := biscuit.Unmarshal(raw)
	out["unmarshal"] = err == nil
	if err != nil {
		out["bad"] = bad
		return out, nil
	}
	if ser, err := tok.Serialize(); err != nil || !bytes.Equal(ser, raw) {
		bad = append(bad, "Unmarshal(bytes).Serialize() does not reproduce the reference implementation's bytes")
	}
	_, verr := tok.AuthorizerFor(biscuit.WithSingularRootPublicKey(pub))
	out["verifies"] = verr == nil
	if verr == nil {
		code := fmt.Sprint(tok.Code())
		revs := fmt.Sprintf("%x", tok.RevocationIds())
		if sealed, err := tok.Seal(nil2rand()); err == nil { // unsealed sample: sealing must preserve everything
			if _, err := sealed.AuthorizerFor(biscuit.WithSingularRootPublicKey(pub)); err != nil {
				bad = append(bad, "sealing a verified reference token yields a token that does not verify: "+err.Error())
			}
			if fmt.Sprint(sealed.Code()) != code || fmt.Sprintf("%x", sealed.RevocationIds()) != revs {
				bad = append(bad, "sealing changed content or revocation ids")
			}
			ser, _ := sealed.Serialize()
			if re, err := biscuit.Unmarshal(ser); err != nil {
				bad = append(bad, "sealed reference token does not reload: "+err.Error())
			} else if _, err := re.AuthorizerFor(biscuit.WithSingularRootPublicKey(pub)); err != nil {
				bad = append(bad, "reloaded sealed reference token does not verify: "+err.Error())
			}
			bb := tok.CreateBlock()
			bb.AddFact(biscuit.Fact{Predicate: biscuit.Predicate{Name: "appended", IDs: []biscuit.Term{biscuit.Integer(1)}}})
			if t2, err := tok.Append(nil2rand(), bb.Build()); err != nil {
				bad = append(bad, "Append on a verified reference token fails: "+err.Error())
			} else if _, err := t2.AuthorizerFor(biscuit.WithSingularRootPublicKey(pub)); err != nil {
				bad = append(bad, "attenuated reference token does not verify: "+err.Error())
			}
		} else { // sealed sample: both must be refused
			bb := tok.CreateBlock()
			if _, err := tok.Append(nil2rand(), bb.Build()); err == nil {
				bad = append(bad, "a sealed reference token can be extended")
			}
		}
	}
	out["bad"] = bad
	return out, nil
}

func init() {
	families["corpus"] = func(raw json.RawMessage) (interface{}, error) {
		var c CorpusCase
		if err := json.Unmarshal(raw, &c); err != nil {
			return nil, err
		}
		return runCorpus(&c)
	}
}
