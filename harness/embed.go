package main

import (
	"fmt"
	"sort"
	"strings"
	"time"

	biscuit "github.com/biscuit-auth/biscuit-go/v2"
	"github.com/biscuit-auth/biscuit-go/v2/datalog"
)

// Embed maps the integer-coded model values of spec/Datalog.tla (constants >= 0, variables < 0,
// predicate ids) to concrete Biscuit terms and names. The properties are invariant under the
// embedding, so every seed must give the same verdicts.
type Embed struct {
	Kind    int // constant representation
	PredSet int // predicate naming scheme
	rev     map[string]int
}

const embedKinds = 8 // kind 8 (unary strings) is only chosen when a program uses starts_with

// orderedKinds preserve the integer order of constants (needed when lt/le guards are used).
var orderedKinds = []int{0, 1, 5, 9}

// sameTypeKinds map all constants to one term type (needed when == is used: comparing values of
// different types is an error in Biscuit, not "false").
var sameTypeKinds = []int{0, 1, 2, 4, 5, 6, 7, 9, 10}

// anyKinds: chosen when a program compares nothing
var anyKinds = []int{0, 1, 2, 3, 4, 5, 6, 7, 10}

// cmp: 0 = the program compares nothing, 1 = uses == / !=, 2 = uses < / <=
func newEmbed(seed int64, cmp int) *Embed {
	if seed < 0 {
		seed = -seed
	}
	e := &Embed{PredSet: int(seed/7) % 3, rev: map[string]int{}}
	switch cmp {
	case 3:
		e.Kind = 8
	case 2:
		e.Kind = orderedKinds[int(seed)%len(orderedKinds)]
	case 1:
		e.Kind = sameTypeKinds[int(seed)%len(sameTypeKinds)]
	default:
		e.Kind = anyKinds[int(seed)%len(anyKinds)]
	}
	return e
}

func cmpOfRules(rs ...[]ARule) int {
	c := 0
	for _, l := range rs {
		for _, r := range l {
			for _, g := range r.G {
				switch g.O {
				case "pre", "re":
					return 3
				case "lt", "le":
					c = 2
				case "eq", "ne":
					if c < 1 {
						c = 1
					}
				}
			}
		}
	}
	return c
}

var predNames = [][]string{
	{"p", "q", "r", "s", "t", "u", "allowed", "seen", "w", "x1", "x2", "x3"},
	{"right", "resource", "operation", "user", "owner", "read", "write", "time", "role", "group", "member", "query"}, // default symbols
	{"alpha_1", "read", "Beta:x", "owner", "g", "resource", "h", "i", "j", "k", "l", "m"},
}

func (e *Embed) Pred(p int) string {
	n := predNames[e.PredSet]
	if p < len(n) {
		return n[p]
	}
	return fmt.Sprintf("pred%d", p)
}

func (e *Embed) Var(v int) string {
	names := []string{"x", "y", "z", "w", "v5", "v6"}
	i := -v - 1
	if e.PredSet == 1 { // variable names that collide with default symbols / predicate names
		names = []string{"resource", "read", "user", "owner", "time", "role"}
	}
	if i < len(names) {
		return names[i]
	}
	return fmt.Sprintf("v%d", i)
}

// Const returns the builder-level term for constant c.
func (e *Embed) Const(c int) biscuit.Term {
	var t biscuit.Term
	switch e.Kind {
	case 0:
		t = biscuit.Integer(int64(c))
	case 1:
		t = biscuit.Integer(int64(c)<<40 - 1<<62)
	case 2:
		t = biscuit.String(fmt.Sprintf("c%d", c))
	case 3: // a different type per constant, default symbols and fresh strings mixed in
		pool := []biscuit.Term{biscuit.Integer(7), biscuit.String("read"), biscuit.Bytes([]byte{1, 2}), biscuit.Date(time.Unix(5, 0)),
			biscuit.Bool(true), biscuit.Set{biscuit.Integer(1), biscuit.Integer(2)}, biscuit.String(""), biscuit.Bool(false),
			biscuit.Bytes([]byte{}), biscuit.String("file1"), biscuit.Integer(-7), biscuit.Set{biscuit.String("a")}}
		if c < len(pool) {
			t = pool[c]
		} else {
			t = biscuit.Integer(int64(1000 + c))
		}
	case 4:
		t = biscuit.Bytes([]byte{byte(c), 0xff})
	case 5:
		t = biscuit.Date(time.Unix(int64(1000+c), 0))
	case 6:
		t = biscuit.Set{biscuit.Integer(int64(c)), biscuit.Integer(100)}
	case 7:
		t = biscuit.Set{biscuit.Bytes([]byte{byte(c)}), biscuit.Bytes([]byte{200, 1})}
	case 10: // strings of c letters: constant 0 is the EMPTY string (a symbol like any other)
		t = biscuit.String(strings.Repeat("z", c))
	case 9: // constant i is the set {0..i}: x <= y iff x is a subset of y; the order comparisons become set operations
		s := biscuit.Set{}
		for k := c; k >= 0; k-- { // descending: an element that survives an intersection changes its position
			s = append(s, biscuit.Integer(int64(k)))
		}
		t = s
	case 8: // constant i is "a" repeated 12-i times: x.starts_with(y) iff x <= y (larger ids are shorter strings)
		t = biscuit.String(strings.Repeat("a", 12-c))
	}
	e.rev[termKey(t)] = c
	return t
}

func (e *Embed) Term(t int) biscuit.Term {
	if t < 0 {
		return biscuit.Variable(e.Var(t))
	}
	return e.Const(t)
}

func (e *Embed) Atom(a []int) biscuit.Predicate {
	ids := make([]biscuit.Term, 0, len(a)-1)
	for _, t := range a[1:] {
		ids = append(ids, e.Term(t))
	}
	return biscuit.Predicate{Name: e.Pred(a[0]), IDs: ids}
}

// termKey is a canonical text for a builder-level term (sets sorted).
func termKey(t biscuit.Term) string {
	switch x := t.(type) {
	case biscuit.Set:
		ks := make([]string, 0, len(x))
		for _, el := range x {
			ks = append(ks, termKey(el))
		}
		sort.Strings(ks)
		return "set{" + strings.Join(ks, ",") + "}"
	case biscuit.Date:
		return fmt.Sprintf("date:%d", time.Time(x).Unix())
	case biscuit.Integer:
		return fmt.Sprintf("int:%d", int64(x))
	case biscuit.String:
		return fmt.Sprintf("str:%q", string(x))
	case biscuit.Bytes:
		return fmt.Sprintf("bytes:%x", []byte(x))
	case biscuit.Bool:
		return fmt.Sprintf("bool:%t", bool(x))
	case biscuit.Variable:
		return "var:" + string(x)
	}
	return fmt.Sprintf("?%T", t)
}

// Abs maps a concrete constant back to its model id (-1000 if it is not an embedded constant).
func (e *Embed) Abs(t biscuit.Term) int {
	if c, ok := e.rev[termKey(t)]; ok {
		return c
	}
	return -1000
}

// dlTerm converts a builder term to a datalog term using syms (exported conversion via a throwaway fact).
func dlPredicate(p biscuit.Predicate, syms *datalog.SymbolTable) datalog.Predicate {
	terms := make([]datalog.Term, 0, len(p.IDs))
	for _, id := range p.IDs {
		terms = append(terms, dlTerm(id, syms))
	}
	return datalog.Predicate{Name: syms.Insert(p.Name), Terms: terms}
}

func dlTerm(t biscuit.Term, syms *datalog.SymbolTable) datalog.Term {
	switch x := t.(type) {
	case biscuit.Variable:
		return datalog.Variable(syms.Insert(string(x)))
	case biscuit.Integer:
		return datalog.Integer(x)
	case biscuit.String:
		return syms.Insert(string(x))
	case biscuit.Date:
		return datalog.Date(time.Time(x).Unix())
	case biscuit.Bytes:
		return datalog.Bytes(x)
	case biscuit.Bool:
		return datalog.Bool(x)
	case biscuit.Set:
		s := make(datalog.Set, 0, len(x))
		for _, el := range x {
			s = append(s, dlTerm(el, syms))
		}
		return s
	}
	panic(fmt.Sprintf("dlTerm: %T", t))
}

func fromDlTerm(t datalog.Term, syms *datalog.SymbolTable) biscuit.Term {
	switch x := t.(type) {
	case datalog.Variable:
		return biscuit.Variable(syms.Var(x))
	case datalog.Integer:
		return biscuit.Integer(x)
	case datalog.String:
		return biscuit.String(syms.Str(x))
	case datalog.Date:
		return biscuit.Date(time.Unix(int64(x), 0))
	case datalog.Bytes:
		return biscuit.Bytes(x)
	case datalog.Bool:
		return biscuit.Bool(x)
	case datalog.Set:
		s := make(biscuit.Set, 0, len(x))
		for _, el := range x {
			s = append(s, fromDlTerm(el, syms))
		}
		return s
	}
	panic(fmt.Sprintf("fromDlTerm: %T", t))
}
