package main

import (
	"encoding/json"
	"errors"
	"fmt"
	"sort"
	"time"

	biscuit "github.com/biscuit-auth/biscuit-go/v2"
	"github.com/biscuit-auth/biscuit-go/v2/datalog"
)

// Abstract syntax mirrored from spec/Datalog.tla.
type AGuard struct {
	O string `json:"o"`
	L int    `json:"l"`
	R int    `json:"r"`
}

type ARule struct {
	H []int    `json:"h"`
	B [][]int  `json:"b"`
	G []AGuard `json:"g"`
}

func (e *Embed) Guard(g AGuard) biscuit.Expression {
	bin := map[string]biscuit.Op{"lt": biscuit.BinaryLessThan, "le": biscuit.BinaryLessOrEqual, "eq": biscuit.BinaryEqual, "ne": biscuit.BinaryEqual}
	switch g.O {
	case "T":
		return biscuit.Expression{biscuit.Value{Term: biscuit.Bool(true)}}
	case "F":
		if e.Kind%2 == 0 {
			return biscuit.Expression{biscuit.Value{Term: biscuit.Bool(false)}}
		}
		return biscuit.Expression{biscuit.Value{Term: biscuit.Integer(2)}, biscuit.Value{Term: biscuit.Integer(1)}, biscuit.BinaryLessThan}
	case "E":
		switch e.Kind % 3 {
		case 0:
			return biscuit.Expression{biscuit.Value{Term: biscuit.Integer(1)}, biscuit.Value{Term: biscuit.Integer(0)}, biscuit.BinaryDiv,
				biscuit.Value{Term: biscuit.Integer(1)}, biscuit.BinaryEqual}
		case 1:
			return biscuit.Expression{biscuit.Value{Term: biscuit.Integer(1)}, biscuit.Value{Term: biscuit.String("a")}, biscuit.BinaryAdd}
		default:
			return biscuit.Expression{biscuit.Value{Term: biscuit.Bool(true)}, biscuit.UnaryLength}
		}
	}
	if e.Kind == 9 && (g.O == "lt" || g.O == "le") {
		// constants are the sets {0..i}: l <= r iff l.intersection(r) == l (or r.contains(l)); l < r additionally needs l != r
		L, R := biscuit.Value{Term: e.Term(g.L)}, biscuit.Value{Term: e.Term(g.R)}
		ex := biscuit.Expression{L, R, biscuit.BinaryIntersection, L, biscuit.BinaryEqual}
		if (g.L+g.R)%2 != 0 {
			ex = biscuit.Expression{R, L, biscuit.BinaryContains}
		}
		if g.O == "lt" {
			ex = append(ex, L, R, biscuit.BinaryEqual, biscuit.UnaryNegate, biscuit.BinaryAnd)
		}
		return ex
	}
	if g.O == "pre" {
		return biscuit.Expression{biscuit.Value{Term: e.Term(g.L)}, biscuit.Value{Term: e.Term(g.R)}, biscuit.BinaryPrefix}
	}
	if g.O == "re" { // every constant is a string of letters "a": a valid pattern, found in the subject iff it is not longer
		return biscuit.Expression{biscuit.Value{Term: e.Term(g.L)}, biscuit.Value{Term: e.Term(g.R)}, biscuit.BinaryRegex}
	}
	ex := biscuit.Expression{biscuit.Value{Term: e.Term(g.L)}, biscuit.Value{Term: e.Term(g.R)}, bin[g.O]}
	if g.O == "ne" {
		ex = append(ex, biscuit.UnaryNegate)
	}
	return ex
}

func (e *Embed) Rule(r ARule) biscuit.Rule {
	out := biscuit.Rule{Head: e.Atom(r.H), Body: []biscuit.Predicate{}, Expressions: []biscuit.Expression{}}
	for _, a := range r.B {
		out.Body = append(out.Body, e.Atom(a))
	}
	for _, g := range r.G {
		out.Expressions = append(out.Expressions, e.Guard(g))
	}
	return out
}

func (e *Embed) Fact(a []int) biscuit.Fact { return biscuit.Fact{Predicate: e.Atom(a)} }

// independent conversion of builder-level rules to the datalog layer (Rule.convert is unexported)
func dlExpression(ex biscuit.Expression, syms *datalog.SymbolTable) datalog.Expression {
	un := map[biscuit.UnaryOp]datalog.UnaryOpFunc{biscuit.UnaryNegate: datalog.Negate{}, biscuit.UnaryParens: datalog.Parens{}, biscuit.UnaryLength: datalog.Length{}}
	bin := map[biscuit.BinaryOp]datalog.BinaryOpFunc{
		biscuit.BinaryLessThan: datalog.LessThan{}, biscuit.BinaryLessOrEqual: datalog.LessOrEqual{}, biscuit.BinaryGreaterThan: datalog.GreaterThan{},
		biscuit.BinaryGreaterOrEqual: datalog.GreaterOrEqual{}, biscuit.BinaryEqual: datalog.Equal{}, biscuit.BinaryContains: datalog.Contains{},
		biscuit.BinaryPrefix: datalog.Prefix{}, biscuit.BinarySuffix: datalog.Suffix{}, biscuit.BinaryRegex: datalog.Regex{}, biscuit.BinaryAdd: datalog.Add{},
		biscuit.BinarySub: datalog.Sub{}, biscuit.BinaryMul: datalog.Mul{}, biscuit.BinaryDiv: datalog.Div{}, biscuit.BinaryAnd: datalog.And{},
		biscuit.BinaryOr: datalog.Or{}, biscuit.BinaryIntersection: datalog.Intersection{}, biscuit.BinaryUnion: datalog.Union{}}
	out := datalog.Expression{}
	for _, op := range ex {
		switch x := op.(type) {
		case biscuit.Value:
			out = append(out, datalog.Value{ID: dlTerm(x.Term, syms)})
		case biscuit.UnaryOp:
			out = append(out, datalog.UnaryOp{UnaryOpFunc: un[x]})
		case biscuit.BinaryOp:
			out = append(out, datalog.BinaryOp{BinaryOpFunc: bin[x]})
		}
	}
	return out
}

func dlRule(r biscuit.Rule, syms *datalog.SymbolTable) datalog.Rule {
	out := datalog.Rule{Head: dlPredicate(r.Head, syms)}
	for _, p := range r.Body {
		out.Body = append(out.Body, dlPredicate(p, syms))
	}
	for _, ex := range r.Expressions {
		out.Expressions = append(out.Expressions, dlExpression(ex, syms))
	}
	return out
}

// absFacts abstracts a datalog fact list back to model atoms <<p, c1, ..>> using the embedding's inverse maps.
func (e *Embed) absFacts(fs *datalog.FactSet, syms *datalog.SymbolTable, preds map[string]int) [][]int {
	out := [][]int{}
	for _, f := range *fs {
		name := syms.Str(f.Predicate.Name)
		p, ok := preds[name]
		if !ok {
			p = -1000
		}
		row := []int{p}
		for _, t := range f.Predicate.Terms {
			row = append(row, e.Abs(fromDlTerm(t, syms)))
		}
		out = append(out, row)
	}
	sortRows(out)
	return out
}

func sortRows(rows [][]int) {
	sort.Slice(rows, func(i, j int) bool {
		a, b := rows[i], rows[j]
		for k := 0; k < len(a) && k < len(b); k++ {
			if a[k] != b[k] {
				return a[k] < b[k]
			}
		}
		return len(a) < len(b)
	})
}

func predIndex(e *Embed, n int) map[string]int {
	m := map[string]int{}
	for p := 0; p < n; p++ {
		m[e.Pred(p)] = p
	}
	return m
}

const queryPred = 11 // head predicate used for exported joins

// ---- family "join": World.QueryRule of one body over one fact LIST --------------------------------
type JoinCase struct {
	ID    string  `json:"id"`
	Emb   int64   `json:"emb"`
	Body  [][]int `json:"body"`
	Facts [][]int `json:"facts"`
	K     int     `json:"k"`
}

// ---- family "run": World.Run with limits ------------------------------------------------------------
type RunCase struct {
	ID      string  `json:"id"`
	Emb     int64   `json:"emb"`
	Facts   [][]int `json:"facts"`
	Rules   []ARule `json:"rules"`
	MF      int     `json:"mf"`
	MI      int     `json:"mi"`
	Queries []ARule `json:"queries"`
}

type RunObs struct {
	Res   string    `json:"res"` // ok | maxfacts | maxiter | timeout | err
	Facts [][]int   `json:"facts"`
	QRes  [][][]int `json:"qres"`
	Msg   string    `json:"msg,omitempty"`
}

func classifyRunErr(err error) string {
	switch {
	case err == nil:
		return "ok"
	case errors.Is(err, datalog.ErrWorldRunLimitMaxFacts):
		return "maxfacts"
	case errors.Is(err, datalog.ErrWorldRunLimitMaxIterations):
		return "maxiter"
	case errors.Is(err, datalog.ErrWorldRunLimitTimeout):
		return "timeout"
	}
	return "err"
}

func init() {
	families["join"] = func(raw json.RawMessage) (interface{}, error) {
		var c JoinCase
		if err := json.Unmarshal(raw, &c); err != nil {
			return nil, err
		}
		e := newEmbed(c.Emb, 0)
		syms := &datalog.SymbolTable{}
		w := datalog.NewWorld()
		for _, f := range c.Facts {
			w.AddFact(datalog.Fact{Predicate: dlPredicate(e.Atom(f), syms)})
		}
		head := []int{queryPred}
		for i := 1; i <= c.K; i++ {
			head = append(head, -i)
		}
		r := dlRule(e.Rule(ARule{H: head, B: c.Body}), syms)
		res := w.QueryRule(r, syms)
		rows := [][]int{}
		for _, f := range *res {
			row := []int{}
			for _, t := range f.Predicate.Terms {
				row = append(row, e.Abs(fromDlTerm(t, syms)))
			}
			rows = append(rows, row)
		}
		sortRows(rows)
		return map[string]interface{}{"rows": rows, "n": len(*res)}, nil
	}
	families["run"] = func(raw json.RawMessage) (interface{}, error) {
		var c RunCase
		if err := json.Unmarshal(raw, &c); err != nil {
			return nil, err
		}
		e := newEmbed(c.Emb, cmpOfRules(c.Rules, c.Queries))
		syms := &datalog.SymbolTable{}
		opts := []datalog.WorldOption{datalog.WithMaxDuration(20 * time.Second)}
		if c.MF > 0 {
			opts = append(opts, datalog.WithMaxFacts(c.MF))
		}
		if c.MI > 0 {
			opts = append(opts, datalog.WithMaxIterations(c.MI))
		}
		w := datalog.NewWorld(opts...)
		for _, f := range c.Facts {
			w.AddFact(datalog.Fact{Predicate: dlPredicate(e.Atom(f), syms)})
		}
		for _, r := range c.Rules {
			w.AddRule(dlRule(e.Rule(r), syms))
		}
		err := w.Run(syms)
		obs := RunObs{Res: classifyRunErr(err), QRes: [][][]int{}}
		if err != nil {
			obs.Msg = err.Error()
		}
		preds := predIndex(e, 12)
		obs.Facts = e.absFacts(w.Facts(), syms, preds)
		if err == nil {
			for _, q := range c.Queries {
				fs := w.QueryRule(dlRule(e.Rule(q), syms), syms)
				obs.QRes = append(obs.QRes, e.absFacts(fs, syms, preds))
			}
		}
		return obs, nil
	}
	_ = fmt.Sprint
}
