package main

import (
	"encoding/json"
	"fmt"
	"math"
	"math/rand"
	"strings"

	"github.com/biscuit-auth/biscuit-go/v2/datalog"
)

// ---- family "expr": one (*Expression).Evaluate call per case -------------------------------

type XOp struct {
	K string `json:"k"`
	V *Val   `json:"v,omitempty"`
	N *int   `json:"n,omitempty"`
	O string `json:"o,omitempty"`
}

type XBind struct {
	N int `json:"n"`
	V Val `json:"v"`
}

type XCase struct {
	ID  string  `json:"id"`
	Ops []XOp   `json:"ops"`
	Env []XBind `json:"env"`
}

type XRes struct {
	K   string `json:"k"`
	V   *Val   `json:"v,omitempty"`
	Msg string `json:"msg,omitempty"`
}

var unaryOps = map[string]datalog.UnaryOpFunc{"neg": datalog.Negate{}, "par": datalog.Parens{}, "len": datalog.Length{}}
var binaryOps = map[string]datalog.BinaryOpFunc{
	"lt": datalog.LessThan{}, "le": datalog.LessOrEqual{}, "gt": datalog.GreaterThan{}, "ge": datalog.GreaterOrEqual{},
	"eq": datalog.Equal{}, "contains": datalog.Contains{}, "prefix": datalog.Prefix{}, "suffix": datalog.Suffix{},
	"regex": datalog.Regex{}, "add": datalog.Add{}, "sub": datalog.Sub{}, "mul": datalog.Mul{}, "div": datalog.Div{},
	"and": datalog.And{}, "or": datalog.Or{}, "inter": datalog.Intersection{}, "union": datalog.Union{},
}
var binaryNames = []string{"lt", "le", "gt", "ge", "eq", "contains", "prefix", "suffix", "regex", "add", "sub", "mul", "div", "and", "or", "inter", "union"}
var unaryNames = []string{"neg", "par", "len"}

func buildExpr(ops []XOp, syms *datalog.SymbolTable) (datalog.Expression, error) {
	e := make(datalog.Expression, 0, len(ops))
	for _, op := range ops {
		switch op.K {
		case "val":
			t, err := op.V.toTerm(syms)
			if err != nil {
				return nil, err
			}
			e = append(e, datalog.Value{ID: t})
		case "var":
			e = append(e, datalog.Value{ID: datalog.Variable(uint32(*op.N))})
		case "un":
			f, ok := unaryOps[op.O]
			if !ok {
				return nil, fmt.Errorf("bad unary %q", op.O)
			}
			e = append(e, datalog.UnaryOp{UnaryOpFunc: f})
		case "bin":
			f, ok := binaryOps[op.O]
			if !ok {
				return nil, fmt.Errorf("bad binary %q", op.O)
			}
			e = append(e, datalog.BinaryOp{BinaryOpFunc: f})
		default:
			return nil, fmt.Errorf("bad op kind %q", op.K)
		}
	}
	return e, nil
}

func evalCase(c *XCase) (res XRes, herr error) {
	syms := &datalog.SymbolTable{}
	expr, err := buildExpr(c.Ops, syms)
	if err != nil {
		return XRes{}, err
	}
	env := map[datalog.Variable]*datalog.Term{}
	for _, b := range c.Env {
		t, err := b.V.toTerm(syms)
		if err != nil {
			return XRes{}, err
		}
		tt := t
		env[datalog.Variable(uint32(b.N))] = &tt
	}
	defer func() {
		if r := recover(); r != nil {
			res = XRes{K: "panic", Msg: fmt.Sprint(r)}
			herr = nil
		}
	}()
	once := func() XRes {
		out, err := expr.Evaluate(env, syms)
		if err != nil {
			return XRes{K: "err", Msg: err.Error()}
		}
		v, err := fromTerm(out, syms)
		if err != nil {
			return XRes{K: "err", Msg: "non-value result: " + err.Error()}
		}
		return XRes{K: "ok", V: &v}
	}
	first := once()
	// an expression is evaluated once per binding of a rule: evaluating the SAME expression object with the SAME
	// operands again must give the same result (operands are values, evaluation must not modify them)
	second := once()
	a, _ := json.Marshal(first.V)
	b, _ := json.Marshal(second.V)
	if first.K != second.K || string(a) != string(b) {
		return XRes{K: "unstable", Msg: fmt.Sprintf("first evaluation: %s %s, second evaluation of the same expression: %s %s", first.K, a, second.K, b)}, nil
	}
	return first, nil
}

func init() {
	families["expr"] = func(raw json.RawMessage) (interface{}, error) {
		var c XCase
		if err := json.Unmarshal(raw, &c); err != nil {
			return nil, err
		}
		return evalCase(&c)
	}
	generators["expr"] = genExpr
}

// ---- generator: boundary pools, every operator x operand pair, random (ill-)formed sequences --

func exprPool() []Val {
	ints := []int64{0, 1, -1, 2, -2, 3, 7, -7, math.MinInt64, math.MinInt64 + 1, math.MaxInt64, math.MaxInt64 - 1,
		1 << 31, -(1 << 31), 1<<31 - 1, 1 << 32, -(1 << 32), 3037000499, 3037000500, -3037000500, 1 << 62, -(1 << 62),
		4611686018427387905, 123456789012345}
	p := []Val{}
	for _, i := range ints {
		p = append(p, vInt(i))
	}
	for _, s := range []string{"", "a", "ab", "abc", "b", "abcabc", strings.Repeat("x", 300), "^ab", "ab$", "^ab$", "h\xc3\xa9llo", "a b/c_d", "^", "$"} {
		p = append(p, vStr(s))
	}
	for _, d := range []uint64{0, 1, 1 << 63, math.MaxUint64, 1700000000} {
		p = append(p, vDate(d))
	}
	for _, b := range [][]byte{{}, {0}, {1}, {1, 2, 3}, {255}} {
		p = append(p, vBytes(b))
	}
	p = append(p, vBool(true), vBool(false))
	p = append(p,
		vSet(vInt(1)), vSet(vInt(1), vInt(2)), vSet(vInt(2), vInt(1)), vSet(vInt(math.MinInt64), vInt(math.MaxInt64)),
		vSet(vStr("a")), vSet(vStr("a"), vStr("ab")), vSet(vBytes([]byte{1})), vSet(vBytes([]byte{1}), vBytes([]byte{1, 2, 3})),
		vSet(vBytes([]byte{1, 2, 3}), vBytes([]byte{1})),
		vSet(vDate(0)), vSet(vDate(0), vDate(math.MaxUint64)), vSet(vBool(true)), vSet(vBool(true), vBool(false)))
	return p
}

func valOp(v Val) XOp { vv := v; return XOp{K: "val", V: &vv} }

func genExpr(tier string, seed int64, out func(interface{})) {
	pool := exprPool()
	id := 0
	emit := func(ops []XOp, env []XBind) {
		id++
		if env == nil {
			env = []XBind{}
		}
		out(XCase{ID: fmt.Sprint(id), Ops: ops, Env: env})
	}
	// every binary operator on every ordered pair, every unary operator on every value
	for _, o := range binaryNames {
		for _, a := range pool {
			for _, b := range pool {
				emit([]XOp{valOp(a), valOp(b), {K: "bin", O: o}}, nil)
			}
		}
	}
	for _, o := range unaryNames {
		for _, a := range pool {
			emit([]XOp{valOp(a), {K: "un", O: o}}, nil)
		}
	}
	// composed set expressions: sets that only exist at evaluation time (e.g. mixed element types built by union)
	sets := []Val{}
	elems := []Val{vInt(1), vInt(2), vStr("a"), vBytes([]byte{1}), vDate(0), vBool(true)}
	for _, v := range pool {
		if v.T == "set" {
			sets = append(sets, v)
		}
	}
	for _, a := range sets {
		for _, b := range sets {
			for _, o := range []string{"union", "inter"} {
				for _, x := range elems {
					emit([]XOp{valOp(a), valOp(b), {K: "bin", O: o}, valOp(x), {K: "bin", O: "contains"}}, nil)
				}
				emit([]XOp{valOp(a), valOp(b), {K: "bin", O: o}, {K: "un", O: "len"}}, nil)
				emit([]XOp{valOp(a), valOp(b), {K: "bin", O: o}, valOp(a), {K: "bin", O: "contains"}}, nil)
				emit([]XOp{valOp(a), valOp(b), {K: "bin", O: o}, valOp(b), valOp(a), {K: "bin", O: o}, {K: "bin", O: "eq"}}, nil)
			}
		}
	}
	// malformed shapes
	emit([]XOp{}, nil)
	for _, o := range binaryNames {
		emit([]XOp{{K: "bin", O: o}}, nil)
		emit([]XOp{valOp(pool[1]), {K: "bin", O: o}}, nil)
	}
	for _, o := range unaryNames {
		emit([]XOp{{K: "un", O: o}}, nil)
	}
	emit([]XOp{valOp(pool[0]), valOp(pool[1])}, nil)
	seven := 7
	emit([]XOp{{K: "var", N: &seven}}, nil)
	emit([]XOp{{K: "var", N: &seven}}, []XBind{{N: 7, V: pool[3]}})
	// stack depth: 1000 pushes then 999 adds is fine, 1001 pushes is an error
	for _, n := range []int{999, 1000, 1001} {
		ops := []XOp{}
		for i := 0; i < n; i++ {
			ops = append(ops, valOp(vInt(1)))
		}
		for i := 0; i < n-1; i++ {
			ops = append(ops, XOp{K: "bin", O: "add"})
		}
		emit(ops, nil)
	}
	// seeded random sequences: trees over pool values and random near-boundary integers, some corrupted
	n := 6000
	if tier == "thorough" {
		n = 150000
	}
	r := rand.New(rand.NewSource(seed))
	randInt := func() Val {
		k := uint(r.Intn(64))
		base := int64(1) << k
		if k == 63 {
			base = math.MinInt64
		}
		d := int64(r.Intn(5) - 2)
		v := base + d // may wrap: still a valid int64 operand
		if r.Intn(2) == 0 {
			v = -v
		}
		return vInt(v)
	}
	randVal := func() Val {
		if r.Intn(3) == 0 {
			return randInt()
		}
		return pool[r.Intn(len(pool))]
	}
	var tree func(d int, ops *[]XOp)
	tree = func(d int, ops *[]XOp) {
		if d == 0 || r.Intn(4) == 0 {
			if r.Intn(8) == 0 {
				k := r.Intn(3)
				*ops = append(*ops, XOp{K: "var", N: &k})
			} else {
				*ops = append(*ops, valOp(randVal()))
			}
			return
		}
		if r.Intn(5) == 0 {
			tree(d-1, ops)
			*ops = append(*ops, XOp{K: "un", O: unaryNames[r.Intn(3)]})
			return
		}
		tree(d-1, ops)
		tree(d-1, ops)
		*ops = append(*ops, XOp{K: "bin", O: binaryNames[r.Intn(len(binaryNames))]})
	}
	// typed arithmetic trees reach deep exact results more often than uniformly random ones
	var arith func(d int, ops *[]XOp)
	arith = func(d int, ops *[]XOp) {
		if d == 0 || r.Intn(5) == 0 {
			*ops = append(*ops, valOp(randInt()))
			return
		}
		arith(d-1, ops)
		arith(d-1, ops)
		*ops = append(*ops, XOp{K: "bin", O: []string{"add", "sub", "mul", "div"}[r.Intn(4)]})
	}
	for i := 0; i < n; i++ {
		ops := []XOp{}
		if i%2 == 0 {
			tree(1+r.Intn(4), &ops)
		} else {
			arith(1+r.Intn(3), &ops)
			if r.Intn(3) == 0 {
				ops = append(ops, valOp(randInt()), XOp{K: "bin", O: []string{"lt", "le", "gt", "ge", "eq"}[r.Intn(5)]})
			}
		}
		switch r.Intn(12) { // corruptions
		case 0:
			if len(ops) > 0 {
				k := r.Intn(len(ops))
				ops = append(ops[:k:k], ops[k+1:]...)
			}
		case 1:
			k := r.Intn(len(ops))
			ops = append(ops[:k+1:k+1], ops[k:]...)
		}
		env := []XBind{{N: 0, V: randVal()}, {N: 1, V: randVal()}}
		emit(ops, env)
	}
}
