package main

import (
	"fmt"
	"math/rand"
)

// Random abstract Datalog programs (integer coded as in spec/Datalog.tla).
type progGen struct {
	r      *rand.Rand
	arity  []int // arity per predicate id
	consts int
}

func newProgGen(r *rand.Rand) *progGen {
	g := &progGen{r: r, consts: 2 + r.Intn(2)}
	np := 2 + r.Intn(3)
	for p := 0; p < np; p++ {
		g.arity = append(g.arity, []int{1, 2, 2, 1, 0, 3}[r.Intn(6)])
	}
	return g
}

func (g *progGen) fact() []int {
	p := g.r.Intn(len(g.arity))
	a := []int{p}
	for i := 0; i < g.arity[p]; i++ {
		a = append(a, g.r.Intn(g.consts))
	}
	return a
}

func (g *progGen) atom(nvars int) []int {
	p := g.r.Intn(len(g.arity))
	a := []int{p}
	for i := 0; i < g.arity[p]; i++ {
		if g.r.Intn(4) == 0 {
			a = append(a, g.r.Intn(g.consts))
		} else {
			a = append(a, -(1 + g.r.Intn(nvars)))
		}
	}
	return a
}

func bodyVars(b [][]int) []int {
	seen := map[int]bool{}
	out := []int{}
	for _, a := range b {
		for _, t := range a[1:] {
			if t < 0 && !seen[t] {
				seen[t] = true
				out = append(out, t)
			}
		}
	}
	return out
}

// rule generates a range-restricted rule with an error-free guard list; ordered reports use of lt/le.
func (g *progGen) rule(maxBody int, query bool) (ARule, bool) {
	nb := 1 + g.r.Intn(maxBody)
	if g.r.Intn(12) == 0 {
		nb = 0
	}
	r := ARule{B: [][]int{}, G: []AGuard{}}
	for i := 0; i < nb; i++ {
		r.B = append(r.B, g.atom(3))
	}
	vs := bodyVars(r.B)
	ordered := false
	if len(vs) > 0 && g.r.Intn(3) == 0 {
		o := []string{"lt", "le", "eq", "ne"}[g.r.Intn(4)]
		l := vs[g.r.Intn(len(vs))]
		rr := g.r.Intn(g.consts)
		if g.r.Intn(2) == 0 {
			rr = vs[g.r.Intn(len(vs))]
		}
		r.G = append(r.G, AGuard{O: o, L: l, R: rr})
		ordered = ordered || o == "lt" || o == "le"
	}
	if g.r.Intn(15) == 0 {
		r.G = append(r.G, AGuard{O: []string{"T", "F"}[g.r.Intn(2)]})
	}
	if query {
		r.H = []int{queryPred}
		for _, v := range vs {
			r.H = append(r.H, v)
		}
		return r, ordered
	}
	p := g.r.Intn(len(g.arity))
	r.H = []int{p}
	for i := 0; i < g.arity[p]; i++ {
		if len(vs) > 0 && g.r.Intn(5) != 0 {
			r.H = append(r.H, vs[g.r.Intn(len(vs))])
		} else {
			r.H = append(r.H, g.r.Intn(g.consts))
		}
	}
	return r, ordered
}

func init() {
	generators["run"] = func(tier string, seed int64, out func(interface{})) {
		n := 1500
		if tier == "thorough" {
			n = 20000
		}
		r := rand.New(rand.NewSource(seed))
		for i := 0; i < n; i++ {
			g := newProgGen(r)
			c := RunCase{ID: fmt.Sprintf("g%d", i), Emb: seed*1000003 + int64(i), Facts: [][]int{}, Rules: []ARule{}, Queries: []ARule{}, MF: 1000, MI: 100}
			nf := r.Intn(7)
			for k := 0; k < nf; k++ {
				c.Facts = append(c.Facts, g.fact()) // duplicates allowed: the store must de-duplicate
			}
			nr := r.Intn(4)
			for k := 0; k < nr; k++ {
				rl, _ := g.rule(3, false)
				c.Rules = append(c.Rules, rl)
			}
			for k := 0; k < 2; k++ {
				q, _ := g.rule(3, true)
				c.Queries = append(c.Queries, q)
			}
			switch r.Intn(6) { // sometimes tight limits
			case 0:
				c.MF = 1 + r.Intn(12)
			case 1:
				c.MI = 1 + r.Intn(4)
			}
			out(c)
		}
	}
}
