package main

import (
	"fmt"
	"math/rand"
)

// Random abstract Datalog programs (integer coded as in spec/Datalog.tla).
type progGen struct {
	strOps bool // use starts_with instead of the order comparisons (the two need different embeddings)
	minFC  int  // smallest constant used in facts and heads (1: constant 0 only ever appears as a literal of an expression)
	r      *rand.Rand
	arity  []int // arity per predicate id
	poly   int   // predicate id used at TWO arities (arity, arity+1) in this program, or -1: same name, different relations
	consts int
}

func newProgGen(r *rand.Rand) *progGen {
	g := &progGen{r: r, consts: 2 + r.Intn(2), poly: -1}
	np := 2 + r.Intn(3)
	for p := 0; p < np; p++ {
		g.arity = append(g.arity, []int{1, 2, 2, 1, 0, 3}[r.Intn(6)])
	}
	if r.Intn(3) == 0 {
		g.poly = r.Intn(np)
	}
	return g
}

// ar is the arity of one OCCURRENCE of predicate p
func (g *progGen) ar(p int) int {
	if p == g.poly && g.r.Intn(2) == 0 {
		return g.arity[p] + 1
	}
	return g.arity[p]
}

func (g *progGen) fact() []int {
	p := g.r.Intn(len(g.arity))
	a := []int{p}
	for i, n := 0, g.ar(p); i < n; i++ {
		a = append(a, g.minFC+g.r.Intn(g.consts-g.minFC))
	}
	return a
}

func (g *progGen) atom(nvars int) []int {
	p := g.r.Intn(len(g.arity))
	a := []int{p}
	for i, n := 0, g.ar(p); i < n; i++ {
		if g.r.Intn(4) == 0 {
			a = append(a, g.r.Intn(g.consts))
		} else {
			a = append(a, -(1 + g.r.Intn(nvars)))
		}
	}
	return a
}

// panelQuery asks for every fact of one predicate (at its base arity)
func (g *progGen) panelQuery() *ARule {
	p := g.r.Intn(len(g.arity))
	a := []int{p}
	h := []int{queryPred}
	for i := 0; i < g.arity[p]; i++ {
		a = append(a, -(i + 1))
		h = append(h, -(i + 1))
	}
	return &ARule{H: h, B: [][]int{a}, G: []AGuard{}}
}

func bodyVars(b [][]int) []int {
	seen := map[int]bool{}
	out := []int{}
	for _, a := range b {
		for _, t := range a[1:] {
			if t < 0 && !seen[t] {
				seen[t] = true
				out = append(out, t)
			}
		}
	}
	return out
}

// rule generates a range-restricted rule with an error-free guard list; ordered reports use of lt/le.
func (g *progGen) rule(maxBody int, query bool) (ARule, bool) {
	nb := 1 + g.r.Intn(maxBody)
	if g.r.Intn(12) == 0 {
		nb = 0
	}
	r := ARule{B: [][]int{}, G: []AGuard{}}
	for i := 0; i < nb; i++ {
		r.B = append(r.B, g.atom(3))
	}
	vs := bodyVars(r.B)
	ordered := false
	if len(vs) > 0 && g.r.Intn(3) == 0 {
		o := []string{"lt", "le", "eq", "ne"}[g.r.Intn(4)]
		if g.strOps {
			o = []string{"pre", "re", "re", "eq", "ne"}[g.r.Intn(5)]
		}
		l := vs[g.r.Intn(len(vs))]
		rr := g.r.Intn(g.consts)
		if g.r.Intn(2) == 0 {
			rr = vs[g.r.Intn(len(vs))]
		}
		r.G = append(r.G, AGuard{O: o, L: l, R: rr})
		ordered = ordered || o == "lt" || o == "le"
	}
	if g.r.Intn(15) == 0 {
		r.G = append(r.G, AGuard{O: []string{"T", "F"}[g.r.Intn(2)]})
	}
	if query && g.r.Intn(3) != 0 {
		r.H = []int{queryPred}
		for _, v := range vs {
			r.H = append(r.H, v)
		}
		return r, ordered
	}
	// (one query in three has an ordinary head: its instances may coincide with facts already present)
	p := g.r.Intn(len(g.arity))
	r.H = []int{p}
	for i, n := 0, g.ar(p); i < n; i++ {
		if len(vs) > 0 && g.r.Intn(5) != 0 {
			r.H = append(r.H, vs[g.r.Intn(len(vs))])
		} else {
			r.H = append(r.H, g.minFC+g.r.Intn(g.consts-g.minFC))
		}
	}
	return r, ordered
}

func init() {
	generators["run"] = func(tier string, seed int64, out func(interface{})) {
		n := 1500
		if tier == "thorough" {
			n = 20000
		}
		r := rand.New(rand.NewSource(seed))
		for i := 0; i < n; i++ {
			g := newProgGen(r)
			g.strOps = i%3 == 0 // starts_with / matches guards instead of the order comparisons
			c := RunCase{ID: fmt.Sprintf("g%d", i), Emb: seed*1000003 + int64(i), Facts: [][]int{}, Rules: []ARule{}, Queries: []ARule{}, MF: 1000, MI: 100}
			nf := r.Intn(7)
			for k := 0; k < nf; k++ {
				c.Facts = append(c.Facts, g.fact()) // duplicates allowed: the store must de-duplicate
			}
			nr := r.Intn(4)
			for k := 0; k < nr; k++ {
				rl, _ := g.rule(3, false)
				c.Rules = append(c.Rules, rl)
			}
			for k := 0; k < 2; k++ {
				q, _ := g.rule(3, true)
				c.Queries = append(c.Queries, q)
			}
			switch r.Intn(6) { // sometimes tight limits
			case 0:
				c.MF = 1 + r.Intn(12)
			case 1:
				c.MI = 1 + r.Intn(4)
			}
			out(c)
		}
	}
}

// generator "authz": random first-order tokens (authority + 0..3 later blocks) and authorizer contents
// (facts, rules, checks with 1-2 queries, 0-3 ordered policies of both kinds), error-free guards.
func init() {
	generators["authz"] = func(tier string, seed int64, out func(interface{})) {
		n := 2500
		if tier == "thorough" {
			n = 40000
		}
		r := rand.New(rand.NewSource(seed))
		for i := 0; i < n; i++ {
			g := newProgGen(r)
			g.strOps = i%2 == 0
			if i%4 == 0 {
				g.minFC = 1
			}
			blk := func(maxF, maxR, maxC int) ABlock {
				b := ABlock{F: [][]int{}, R: []ARule{}, C: [][]ARule{}}
				seen := map[string]bool{}
				for k, m := 0, r.Intn(maxF+1); k < m; k++ {
					f := g.fact()
					if key := fmt.Sprint(f); !seen[key] {
						seen[key] = true
						b.F = append(b.F, f)
					}
				}
				for k, m := 0, r.Intn(maxR+1); k < m; k++ {
					rl, _ := g.rule(2, false)
					b.R = append(b.R, rl)
				}
				for k, m := 0, r.Intn(maxC+1); k < m; k++ {
					qs := []ARule{}
					for q, mq := 0, 1+r.Intn(2); q < mq; q++ {
						qr, _ := g.rule(2, true)
						qr.H = []int{99}
						qs = append(qs, qr)
					}
					b.C = append(b.C, qs)
				}
				return b
			}
			tok := AToken{Auth: blk(4, 2, 2), Blocks: []ABlock{}, Via: []string{"mem", "bytes", "sealed", "sealedbytes"}[r.Intn(4)]}
			for k, m := 0, r.Intn(4); k < m; k++ {
				tok.Blocks = append(tok.Blocks, blk(2, 1, 2))
			}
			zb := blk(4, 2, 2)
			az := &AAz{F: zb.F, R: zb.R, C: zb.C, P: []APolicy{}}
			for k, m := 0, r.Intn(4); k < m; k++ {
				p := APolicy{Kind: []string{"allow", "deny"}[r.Intn(2)], Q: []ARule{}}
				for q, mq := 0, 1+r.Intn(2); q < mq; q++ {
					qr, _ := g.rule(2, true)
					qr.H = []int{99}
					p.Q = append(p.Q, qr)
				}
				az.P = append(az.P, p)
			}
			if g.strOps && i%3 == 0 {
				// a first policy whose string literal occurs NOWHERE else (constant id consts+1: a prefix of every other constant)
				q, _ := g.rule(1, true)
				q.H = []int{99}
				if vs := bodyVars(q.B); len(vs) > 0 {
					q.G = []AGuard{{O: []string{"pre", "re"}[r.Intn(2)], L: vs[0], R: g.consts + 1}}
					az.P = append([]APolicy{{Kind: []string{"deny", "allow"}[r.Intn(2)], Q: []ARule{q}}}, az.P...)
				}
			}
			out(AuthzCase{ID: fmt.Sprintf("ga%d", i), Emb: seed*1000003 + int64(i), Toks: []AToken{tok},
				Script: []AOp{{Op: "new", A: 0, T: 0}, {Op: "add", A: 0, Az: az, Mode: []string{"", "block", "authorizer", "text"}[i%4]}, {Op: "authorize", A: 0}, {Op: "world", A: 0},
					// the documented workflow continues: query the authorizer, authorize again (same outcome, same facts)
					{Op: "query", A: 0, Q: g.panelQuery()}, {Op: "authorize", A: 0}, {Op: "world", A: 0}}})
		}
	}
}
