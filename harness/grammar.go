package main

import (
	"encoding/json"
	"fmt"
	"math/rand"
	"regexp"
	"sort"
	"strings"
	"time"

	biscuit "github.com/biscuit-auth/biscuit-go/v2"
	"github.com/biscuit-auth/biscuit-go/v2/datalog"
	"github.com/biscuit-auth/biscuit-go/v2/parser"
)

// family "grammar" (C14, C15): token lists generated from spec/Grammar.tla / GrammarElems.tla are laid out with seeded
// whitespace, parsed with the real parser (package functions and a shared Parser), compared with the denotation the
// specification gives, used (builder / block builder / authorizer), printed inside a token and parsed back.
type GOp struct {
	K string `json:"k"`
	V *Val   `json:"v,omitempty"`
	N *int   `json:"n,omitempty"`
	O string `json:"o,omitempty"`
}

type GRule struct {
	Head  CPred   `json:"head"`
	Body  []CPred `json:"body"`
	Exprs [][]GOp `json:"exprs"`
}

type GPolicy struct {
	Kind string  `json:"kind"`
	Q    []GRule `json:"q"`
}

type GBlock struct {
	Facts  []CPred   `json:"facts"`
	Rules  []GRule   `json:"rules"`
	Checks [][]GRule `json:"checks"`
}

type GCase struct {
	ID      string   `json:"id"`
	Kind    string   `json:"kind"` // expr | fact | rule | check | policy | block | authorizer
	Toks    []string `json:"toks"`
	Ops     []GOp    `json:"ops"`
	Fact    *CPred   `json:"fact"`
	Rule    *GRule   `json:"rule"`
	Check   []GRule  `json:"check"`
	Policy  *GPolicy `json:"policy"`
	Block   *GBlock  `json:"block"`
	ExpErr  bool     `json:"experr"`
	Layout  int64    `json:"layout"`
	Corrupt int64    `json:"corrupt"` // != 0: token-level corruption; oracle: no panic
	Print   bool     `json:"print"`   // C15: print inside a token and parse back
}

var sharedParser = parser.New()

func layout(toks []string, seed int64) string {
	r := rand.New(rand.NewSource(seed))
	seps := []string{" ", " ", "  ", "\t", "\n", " \n\t ", ""}
	var b strings.Builder
	for i, t := range toks {
		if i > 0 {
			s := seps[r.Intn(len(seps))]
			prev := toks[i-1]
			// an empty separator must not glue two word-like tokens together
			if s == "" && (wordy(prev[len(prev)-1]) && wordy(t[0]) || prev == "<-" || t == "<-" || prev == "or" || t == "or" || strings.HasSuffix(prev, " if")) {
				s = " "
			}
			b.WriteString(s)
		}
		b.WriteString(t)
	}
	return b.String()
}

func wordy(c byte) bool {
	return c == '_' || c == ':' || c == '$' || c == '{' || c == '}' || c >= '0' && c <= '9' || c >= 'a' && c <= 'z' || c >= 'A' && c <= 'Z' || c == '"' || c == '-' || c == '<' || c == '>' || c == '=' || c == '|' || c == '&' || c == '+' || c == '*' || c == '/' || c == '!' || c == '.'
}

func valTerm(v *Val) biscuit.Term {
	switch v.T {
	case "int":
		i, _ := v.I.int64()
		return biscuit.Integer(i)
	case "str":
		return biscuit.String(string(bytesOf(v.S)))
	case "bool":
		return biscuit.Bool(*v.B)
	case "bytes":
		return biscuit.Bytes(bytesOf(v.Y))
	case "set":
		s := biscuit.Set{}
		for _, e := range *v.E {
			ee := e
			s = append(s, valTerm(&ee))
		}
		return s
	}
	return nil
}

var gUnary = map[string]biscuit.UnaryOp{"neg": biscuit.UnaryNegate, "par": biscuit.UnaryParens, "len": biscuit.UnaryLength}
var gBinary = map[string]biscuit.BinaryOp{"lt": biscuit.BinaryLessThan, "le": biscuit.BinaryLessOrEqual, "gt": biscuit.BinaryGreaterThan,
	"ge": biscuit.BinaryGreaterOrEqual, "eq": biscuit.BinaryEqual, "contains": biscuit.BinaryContains, "prefix": biscuit.BinaryPrefix,
	"suffix": biscuit.BinarySuffix, "regex": biscuit.BinaryRegex, "add": biscuit.BinaryAdd, "sub": biscuit.BinarySub, "mul": biscuit.BinaryMul,
	"div": biscuit.BinaryDiv, "and": biscuit.BinaryAnd, "or": biscuit.BinaryOr, "inter": biscuit.BinaryIntersection, "union": biscuit.BinaryUnion}

func gExpr(ops []GOp) biscuit.Expression {
	e := biscuit.Expression{}
	for _, o := range ops {
		switch o.K {
		case "val":
			e = append(e, biscuit.Value{Term: valTerm(o.V)})
		case "var":
			e = append(e, biscuit.Value{Term: biscuit.Variable("x")})
		case "un":
			e = append(e, gUnary[o.O])
		case "bin":
			e = append(e, gBinary[o.O])
		}
	}
	return e
}

func (r GRule) rule() biscuit.Rule {
	out := biscuit.Rule{Head: r.Head.pred(), Body: []biscuit.Predicate{}, Expressions: []biscuit.Expression{}}
	for _, p := range r.Body {
		out.Body = append(out.Body, p.pred())
	}
	for _, ex := range r.Exprs {
		out.Expressions = append(out.Expressions, gExpr(ex))
	}
	return out
}

// canonical texts (independent of nil-vs-empty slices and of set element order)
func canonTerm(t biscuit.Term) string {
	if t == nil {
		return "<nil term>"
	}
	return termKey(t)
}
func canonPred(p biscuit.Predicate) string {
	ts := []string{}
	for _, t := range p.IDs {
		ts = append(ts, canonTerm(t))
	}
	return p.Name + "(" + strings.Join(ts, ", ") + ")"
}
func canonExpr(e biscuit.Expression) string {
	ops := []string{}
	for _, o := range e {
		switch x := o.(type) {
		case biscuit.Value:
			ops = append(ops, canonTerm(x.Term))
		case biscuit.UnaryOp:
			ops = append(ops, fmt.Sprintf("U%d", x))
		case biscuit.BinaryOp:
			ops = append(ops, fmt.Sprintf("B%d", x))
		default:
			ops = append(ops, fmt.Sprintf("?%T", o))
		}
	}
	return "[" + strings.Join(ops, " ") + "]"
}
func canonRule(r biscuit.Rule) string {
	b := []string{}
	for _, p := range r.Body {
		b = append(b, canonPred(p))
	}
	for _, e := range r.Expressions {
		b = append(b, canonExpr(e))
	}
	return canonPred(r.Head) + " <- " + strings.Join(b, ", ")
}
func canonCheck(c biscuit.Check) string {
	q := []string{}
	for _, r := range c.Queries {
		q = append(q, canonRule(r))
	}
	return "check{" + strings.Join(q, " | ") + "}"
}
func canonPolicy(p biscuit.Policy) string {
	q := []string{}
	for _, r := range p.Queries {
		q = append(q, canonRule(r))
	}
	return fmt.Sprintf("policy%d{%s}", p.Kind, strings.Join(q, " | "))
}
func canonBlock(b biscuit.ParsedBlock) string {
	out := []string{}
	for _, f := range b.Facts {
		out = append(out, "F "+canonPred(f.Predicate))
	}
	for _, r := range b.Rules {
		out = append(out, "R "+canonRule(r))
	}
	for _, c := range b.Checks {
		out = append(out, "C "+canonCheck(c))
	}
	return strings.Join(out, "\n")
}

func expBlock(g *GBlock) biscuit.ParsedBlock {
	b := biscuit.ParsedBlock{}
	for _, f := range g.Facts {
		b.Facts = append(b.Facts, biscuit.Fact{Predicate: f.pred()})
	}
	for _, r := range g.Rules {
		b.Rules = append(b.Rules, r.rule())
	}
	for _, c := range g.Checks {
		k := biscuit.Check{}
		for _, q := range c {
			k.Queries = append(k.Queries, q.rule())
		}
		b.Checks = append(b.Checks, k)
	}
	return b
}

var params = parser.ParametersMap{"p": biscuit.Integer(7)}

// use: every successfully parsed element must be usable without panicking
func useElements(b biscuit.ParsedBlock, pols []biscuit.Policy) string {
	pub, priv := rootKey(2)
	bl := biscuit.NewBuilder(priv)
	if err := bl.AddBlock(b); err != nil && err != biscuit.ErrDuplicateFact {
		return ""
	}
	tok, err := bl.Build()
	if err != nil {
		return ""
	}
	bb := tok.CreateBlock()
	bb.AddBlock(b)
	tok2, err := tok.Append(nil2rand(), bb.Build())
	if err != nil {
		return ""
	}
	_ = tok2.String()
	_ = tok2.Code()
	ser, err := tok2.Serialize()
	if err != nil {
		return ""
	}
	if t3, err := biscuit.Unmarshal(ser); err == nil {
		_ = t3.String()
	}
	a, err := tok2.AuthorizerFor(biscuit.WithSingularRootPublicKey(pub), biscuit.WithWorldOptions(datalog.WithMaxDuration(10*time.Second)))
	if err != nil {
		return ""
	}
	a.AddBlock(b)
	for _, p := range pols {
		a.AddPolicy(p)
	}
	a.AddPolicy(biscuit.DefaultAllowPolicy)
	_ = a.Authorize()
	_ = a.PrintWorld()
	return ""
}

var lineRe = regexp.MustCompile(`;?\s*$`)

// printedBlock extracts the Datalog text the library prints for block i (1-based later block) and re-parses it.
func reparseCode(code string) (biscuit.ParsedBlock, string, error) {
	lines := []string{}
	for _, l := range strings.Split(code, "\n") {
		l = strings.TrimSpace(l)
		if l == "" || l == "Block {" || l == "}" {
			continue
		}
		lines = append(lines, lineRe.ReplaceAllString(l, ""))
	}
	text := strings.Join(lines, ";\n") + ";"
	if len(lines) == 0 {
		text = ""
	}
	b, err := parser.FromStringBlock(text)
	return b, text, err
}

func field(s, name string) string {
	i := strings.Index(s, name+": ")
	if i < 0 {
		return ""
	}
	rest := s[i+len(name)+2:]
	if j := strings.Index(rest, "\n"); j >= 0 {
		rest = rest[:j]
	}
	rest = strings.TrimSpace(rest)
	if strings.HasPrefix(rest, "[") && strings.HasSuffix(rest, "]") {
		rest = rest[1 : len(rest)-1]
	}
	return strings.TrimSpace(rest)
}

func runGrammar(c *GCase) (res interface{}, herr error) {
	out := map[string]interface{}{}
	bad := []string{}
	defer func() {
		if r := recover(); r != nil {
			res = map[string]interface{}{"bad": append(bad, fmt.Sprintf("PANIC: %v", r)), "text": out["text"]}
			herr = nil
		}
	}()
	toks := append([]string{}, c.Toks...)
	if c.Corrupt != 0 {
		r := rand.New(rand.NewSource(c.Corrupt))
		for n := 1 + r.Intn(2); n > 0 && len(toks) > 0; n-- {
			i := r.Intn(len(toks))
			switch r.Intn(5) {
			case 0:
				toks = append(toks[:i:i], toks[i+1:]...)
			case 1:
				toks = append(toks[:i+1:i+1], toks[i:]...)
			case 2:
				j := r.Intn(len(toks))
				toks[i], toks[j] = toks[j], toks[i]
			case 3:
				toks = toks[:i]
			case 4:
				junk := []string{"(", ")", "[", "]", "{", "}", "$", "\"", "hex:0", ",", ";", "<-", "!", ".", "or", "check if", "9999999999999999999999", "\x00", "é", "//c"}
				toks[i] = junk[r.Intn(len(junk))]
			}
		}
	}
	text := layout(toks, c.Layout)
	if c.Kind == "expr" {
		text = "check if " + text
	}
	out["text"] = text
	var blk biscuit.ParsedBlock
	var pols []biscuit.Policy
	var perr error
	exp := ""
	got := ""
	switch c.Kind {
	case "expr":
		var ck biscuit.Check
		ck, perr = sharedParser.Check(text, params)
		if c.Layout%8 == 0 { // the package-level functions build six fresh parsers per call (~5 ms each): sampled
			ck2, e2 := parser.FromStringCheckWithParams(text, params)
			if (perr == nil) != (e2 == nil) || (perr == nil && canonCheck(ck) != canonCheck(ck2)) {
				bad = append(bad, "package function and shared Parser disagree")
			}
		}
		if perr == nil && c.Corrupt != 0 {
			blk.Checks = []biscuit.Check{ck}
		}
		if perr == nil && c.Corrupt == 0 {
			blk.Checks = []biscuit.Check{ck}
			got = canonCheck(ck)
			exp = canonCheck(biscuit.Check{Queries: []biscuit.Rule{{Head: biscuit.Predicate{Name: "query"}, Expressions: []biscuit.Expression{gExpr(c.Ops)}}}})
			// the same expression in a rule body, a policy, a block and an authorizer
			rl, e := sharedParser.Rule("h($x) <- p($x), "+text[len("check if "):], params)
			if e != nil || len(rl.Expressions) != 1 || canonExpr(rl.Expressions[0]) != canonExpr(gExpr(c.Ops)) {
				bad = append(bad, fmt.Sprintf("as a rule body the expression parses differently (%v)", e))
			}
			pl, e := sharedParser.Policy("deny if "+text[len("check if "):], params)
			if e != nil || len(pl.Queries) != 1 || len(pl.Queries[0].Expressions) != 1 || canonExpr(pl.Queries[0].Expressions[0]) != canonExpr(gExpr(c.Ops)) {
				bad = append(bad, fmt.Sprintf("as a policy the expression parses differently (%v)", e))
			} else {
				pols = append(pols, pl)
			}
			au, e := sharedParser.Authorizer(text+"; allow if "+text[len("check if "):]+";", params)
			if e != nil || len(au.Block.Checks) != 1 || canonCheck(au.Block.Checks[0]) != got || len(au.Policies) != 1 {
				bad = append(bad, fmt.Sprintf("inside an authorizer the check parses differently (%v)", e))
			}
		}
	case "fact":
		var f biscuit.Fact
		f, perr = parser.FromStringFactWithParams(text, params)
		if perr == nil {
			blk.Facts = biscuit.FactSet{f}
			got = canonPred(f.Predicate)
			if c.Fact != nil {
				exp = canonPred(c.Fact.pred())
			}
		}
	case "rule":
		var r biscuit.Rule
		r, perr = parser.FromStringRuleWithParams(text, params)
		if perr == nil {
			blk.Rules = []biscuit.Rule{r}
			got = canonRule(r)
			if c.Rule != nil {
				exp = canonRule(c.Rule.rule())
			}
		}
	case "check":
		var k biscuit.Check
		k, perr = parser.FromStringCheckWithParams(text, params)
		if perr == nil {
			blk.Checks = []biscuit.Check{k}
			got = canonCheck(k)
			if c.Check != nil {
				e := biscuit.Check{}
				for _, q := range c.Check {
					e.Queries = append(e.Queries, q.rule())
				}
				exp = canonCheck(e)
			}
		}
	case "policy":
		var p biscuit.Policy
		p, perr = parser.FromStringPolicyWithParams(text, params)
		if perr == nil {
			pols = []biscuit.Policy{p}
			got = canonPolicy(p)
			if c.Policy != nil {
				e := biscuit.Policy{Kind: biscuit.PolicyKindAllow}
				if c.Policy.Kind == "deny" {
					e.Kind = biscuit.PolicyKindDeny
				}
				for _, q := range c.Policy.Q {
					e.Queries = append(e.Queries, q.rule())
				}
				exp = canonPolicy(e)
			}
		}
	case "block":
		blk, perr = parser.FromStringBlockWithParams(text, params)
		if perr == nil {
			got = canonBlock(blk)
			if c.Block != nil {
				exp = canonBlock(expBlock(c.Block))
			}
		}
	case "authorizer":
		var a biscuit.ParsedAuthorizer
		a, perr = parser.FromStringAuthorizerWithParams(text, params)
		if perr == nil {
			blk, pols = a.Block, a.Policies
			got = canonBlock(a.Block)
			for _, p := range a.Policies {
				got += "\nP " + canonPolicy(p)
			}
			if c.Block != nil {
				exp = canonBlock(expBlock(c.Block))
				e := biscuit.Policy{Kind: biscuit.PolicyKindAllow}
				if c.Policy.Kind == "deny" {
					e.Kind = biscuit.PolicyKindDeny
				}
				for _, q := range c.Policy.Q {
					e.Queries = append(e.Queries, q.rule())
				}
				exp += "\nP " + canonPolicy(e)
			}
		}
	}
	out["parsed"] = perr == nil
	if perr != nil {
		out["err"] = trunc(perr.Error(), 120)
	}
	if c.Corrupt == 0 {
		switch {
		case c.ExpErr && perr == nil:
			bad = append(bad, "parsed without error although the grammar documents this as an error; got "+trunc(got, 200))
		case !c.ExpErr && perr != nil:
			bad = append(bad, "text of the documented grammar is rejected: "+trunc(perr.Error(), 150))
		case !c.ExpErr && exp != "" && got != exp:
			bad = append(bad, "parsed structure differs from the denotation: got "+trunc(got, 300)+" want "+trunc(exp, 300))
		}
	}
	if perr == nil {
		useElements(blk, pols) // a panic here is caught by the deferred recover
		if c.Print && c.Corrupt == 0 && !c.ExpErr {
			bad = append(bad, printRoundTrip(blk)...)
		}
	}
	out["bad"] = bad
	return out, nil
}

// printRoundTrip (C15): the block is placed in authority position and in a later position of a token; the text the
// library prints for it must parse back to the same facts, rules and checks, before and after Serialize/Unmarshal.
func printRoundTrip(blk biscuit.ParsedBlock) []string {
	bad := []string{}
	_, priv := rootKey(4)
	b := biscuit.NewBuilder(priv)
	if err := b.AddBlock(blk); err != nil {
		return nil
	}
	tok, err := b.Build()
	if err != nil {
		return nil
	}
	bb := tok.CreateBlock()
	if err := bb.AddBlock(blk); err != nil {
		return nil
	}
	tok, err = tok.Append(nil2rand(), bb.Build())
	if err != nil {
		return nil
	}
	want := canonBlock(blk)
	check := func(t *biscuit.Biscuit, when string) {
		code := t.Code()
		if len(code) != 1 {
			bad = append(bad, when+": Code() has the wrong number of blocks")
			return
		}
		p2, text, err := reparseCode(code[0])
		if err != nil {
			bad = append(bad, fmt.Sprintf("%s: printed block does not parse back (%v): %s", when, trunc(err.Error(), 100), trunc(text, 300)))
		} else if canonBlock(p2) != want {
			bad = append(bad, fmt.Sprintf("%s: printed block parses back to something else: printed %q -> %s, original %s", when, trunc(text, 300), trunc(canonBlock(p2), 300), trunc(want, 300)))
		}
		// authority position through String(): exactly one fact, rule and check were generated
		s := t.String()
		ai := strings.Index(s, "authority: ")
		bi := strings.Index(s, "blocks: ")
		if ai < 0 || bi < ai {
			bad = append(bad, when+": String() has an unexpected shape")
			return
		}
		as := s[ai:bi]
		parts := []string{}
		for _, f := range []string{"facts", "rules", "checks"} {
			if v := field(as, f); v != "" {
				parts = append(parts, v)
			}
		}
		if len(blk.Facts) <= 1 && len(blk.Rules) <= 1 && len(blk.Checks) <= 1 {
			text2 := strings.Join(parts, ";\n") + ";"
			p3, err := parser.FromStringBlock(text2)
			if err != nil {
				bad = append(bad, fmt.Sprintf("%s: authority block printed by String() does not parse back (%v): %s", when, trunc(err.Error(), 100), trunc(text2, 300)))
			} else if canonBlock(p3) != want {
				bad = append(bad, fmt.Sprintf("%s: authority block printed by String() parses back to something else: %q", when, trunc(text2, 300)))
			}
		}
	}
	before := tok.String() + strings.Join(tok.Code(), "\n")
	check(tok, "built token")
	ser, err := tok.Serialize()
	if err != nil {
		return append(bad, "serialize: "+err.Error())
	}
	t2, err := biscuit.Unmarshal(ser)
	if err != nil {
		return append(bad, "unmarshal: "+err.Error())
	}
	if after := t2.String() + strings.Join(t2.Code(), "\n"); after != before {
		bad = append(bad, "printed form differs before and after serialization")
	}
	check(t2, "reloaded token")
	sort.Strings(bad)
	return bad
}

func init() {
	families["grammar"] = func(raw json.RawMessage) (interface{}, error) {
		var c GCase
		if err := json.Unmarshal(raw, &c); err != nil {
			return nil, err
		}
		return runGrammar(&c)
	}
}
