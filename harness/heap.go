package main

import (
	"bytes"
	"crypto/sha256"
	"encoding/json"
	"fmt"
	"regexp"
	"strings"
	"sync"
	"time"

	biscuit "github.com/biscuit-auth/biscuit-go/v2"
	"github.com/biscuit-auth/biscuit-go/v2/datalog"
)

// family "heap": a history of spec/SymHeap.tla (create / add / build / append / getblockid / seal / reload) executed on
// real tokens, builders and blocks. After EVERY operation every live token and built block is observed again:
// nothing may have changed since the object was born, and its content must be what its own caller put in (`want`).
type HeapOp struct {
	Op string `json:"op"`
	T  int    `json:"t"`
	B  int    `json:"b"`
	K  int    `json:"k"`
	S  int    `json:"s"`
}

type HeapCase struct {
	ID    string   `json:"id"`
	Emb   int64    `json:"emb"`
	Hist  []HeapOp `json:"hist"`
	Want  [][]int  `json:"want"`
	BWant [][]int  `json:"bwant"`
	Conc  int      `json:"conc"` // C19: number of goroutines replaying the read-only / deriving operations concurrently
}

type tokObs struct {
	Str, Code, ReStr, Ser, Rev string
	Syms                     []int
	Auth                     string
}

var factRe = regexp.MustCompile(`\b(sym[a-z]*)([0-9]+)\(([0-9]+)\)`)

func symName(e int64, s int) string {
	// fresh (non-default) symbol names; the variant changes length/shape with the embedding
	return []string{"sym", "symbol", "symx"}[e%3] + fmt.Sprint(s)
}

func symsInCode(code []string) []int {
	out := []int{}
	for _, c := range code {
		for _, m := range factRe.FindAllStringSubmatch(c, -1) {
			var s int
			fmt.Sscan(m[2], &s)
			out = append(out, s)
		}
	}
	return out
}

func observeTok(t *biscuit.Biscuit, pub []byte) (o tokObs) {
	o.Str = t.String()
	o.Code = strings.Join(t.Code(), "\n--\n")
	ser, err := t.Serialize()
	if err != nil {
		o.Ser = "ERR " + err.Error()
	} else {
		h := sha256.Sum256(ser)
		o.Ser = fmt.Sprintf("%x", h[:8])
		if r, err := biscuit.Unmarshal(ser); err != nil {
			o.ReStr = "ERR " + err.Error()
		} else {
			o.ReStr = strings.Join(r.Code(), "\n--\n")
		}
	}
	var rb bytes.Buffer
	for _, id := range t.RevocationIds() {
		rb.Write(id[:4])
	}
	o.Rev = fmt.Sprintf("%x", rb.Bytes())
	// Code() prints the later blocks only; the authority block (own symbols of a token made by Builder.Build) is read from String()
	auth := o.Str
	if i := strings.Index(auth, "authority:"); i >= 0 {
		auth = auth[i:]
	}
	if i := strings.Index(auth, "blocks:"); i >= 0 {
		auth = auth[:i]
	}
	o.Syms = symsInCode(append([]string{auth}, t.Code()...))
	a, err := t.AuthorizerFor(biscuit.WithSingularRootPublicKey(pub), biscuit.WithWorldOptions(datalog.WithMaxDuration(20*time.Second)))
	if err != nil {
		o.Auth = "verify: " + err.Error()
	} else {
		a.AddPolicy(biscuit.DefaultAllowPolicy)
		o.Auth = classify(a.Authorize())
	}
	return
}

func sameInts(a, b []int) bool {
	if len(a) != len(b) {
		return false
	}
	for i := range a {
		if a[i] != b[i] {
			return false
		}
	}
	return true
}

func runHeap(c *HeapCase) (interface{}, error) {
	pub, priv := rootKey(3)
	rb := biscuit.NewBuilder(priv)
	if err := rb.AddAuthorityFact(biscuit.Fact{Predicate: biscuit.Predicate{Name: "right", IDs: []biscuit.Term{biscuit.String("read")}}}); err != nil {
		return nil, err
	}
	root, err := rb.Build()
	if err != nil {
		return nil, err
	}
	toks := []*biscuit.Biscuit{root}
	birth := []tokObs{observeTok(root, pub)}
	type bb struct {
		b    biscuit.BlockBuilder
		rb    biscuit.Builder // authority builder (newbuilder / buildroot)
		tok   int
		adds  int
		added []int // symbol numbers put in so far
	}
	bbs := []*bb{}
	type blk struct {
		b     *biscuit.Block
		tok   int
		birth []string
		syms  []int // what its caller had put into the builder when it was built
	}
	blks := []*blk{}
	bad := []string{}
	check := func(step int, op HeapOp) {
		for i, t := range toks {
			now := observeTok(t, pub)
			b := birth[i]
			if now.Str != b.Str || now.Code != b.Code || now.Ser != b.Ser || now.Rev != b.Rev || now.ReStr != b.ReStr || now.Auth != b.Auth {
				parts := []string{}
				if now.Str != b.Str || now.Code != b.Code {
					parts = append(parts, "String()")
				}
				if now.Ser != b.Ser {
					parts = append(parts, "Serialize()")
				}
				if now.Rev != b.Rev {
					parts = append(parts, "RevocationIds()")
				}
				if now.Auth != b.Auth {
					parts = append(parts, "Authorize outcome "+b.Auth+" -> "+now.Auth)
				}
				if now.ReStr != b.ReStr {
					parts = append(parts, "Unmarshal(Serialize()) content")
				}
				what := strings.Join(parts, ", ")
				bad = append(bad, fmt.Sprintf("step %d (%s): token %d changed after it was created: %s", step, op.Op, i+1, what))
				birth[i] = now
			}
		}
		for k, x := range blks {
			now := biscuit.VerifBlockSymbols(x.b)
			if strings.Join(now, ",") != strings.Join(x.birth, ",") {
				bad = append(bad, fmt.Sprintf("step %d (%s): built block %d changed its symbols %v -> %v", step, op.Op, k+1, x.birth, now))
				x.birth = now
			}
		}
	}
	for step, op := range c.Hist {
		switch op.Op {
		case "create":
			bbs = append(bbs, &bb{b: toks[op.T-1].CreateBlock(), tok: op.T - 1})
		case "newbuilder":
			bbs = append(bbs, &bb{rb: biscuit.NewBuilder(priv), tok: -1})
		case "buildroot":
			x := bbs[op.B-1]
			var nt *biscuit.Biscuit
			var err error
			func() {
				defer func() {
					if r := recover(); r != nil {
						err = fmt.Errorf("panic: %v", r)
					}
				}()
				nt, err = x.rb.Build()
			}()
			if err != nil || nt == nil {
				bad = append(bad, fmt.Sprintf("step %d buildroot: %v", step, err))
				return map[string]interface{}{"bad": bad, "tokens": len(toks), "blocks": len(blks)}, nil
			}
			toks = append(toks, nt)
			birth = append(birth, observeTok(nt, pub))
		case "add":
			x := bbs[op.B-1]
			x.adds++
			x.added = append(x.added, op.S)
			p := biscuit.Predicate{Name: symName(c.Emb, op.S), IDs: []biscuit.Term{biscuit.Integer(int64(100*op.B + x.adds))}}
			var err error
			if x.rb != nil {
				err = x.rb.AddAuthorityFact(biscuit.Fact{Predicate: p})
			} else {
				err = x.b.AddFact(biscuit.Fact{Predicate: p})
			}
			if err != nil {
				bad = append(bad, fmt.Sprintf("step %d add: %v", step, err))
			}
		case "build":
			x := bbs[op.B-1]
			var b *biscuit.Block
			func() { // a builder is not consumed by Build: building again must not fail (SymHeap!NoSplitPanic)
				defer func() {
					if r := recover(); r != nil {
						bad = append(bad, fmt.Sprintf("step %d build: panic: %v", step, r))
					}
				}()
				b = x.b.Build()
			}()
			if b == nil {
				return map[string]interface{}{"bad": bad, "tokens": len(toks), "blocks": len(blks)}, nil
			}
			blks = append(blks, &blk{b: b, tok: x.tok, birth: biscuit.VerifBlockSymbols(b), syms: append([]int{}, x.added...)})
			k := len(blks) - 1
			if k < len(c.BWant) {
				want := []string{}
				for _, s := range c.BWant[k] {
					want = append(want, symName(c.Emb, s))
				}
				if strings.Join(want, ",") != strings.Join(blks[k].birth, ",") {
					bad = append(bad, fmt.Sprintf("step %d build: block %d declares symbols %v, its caller put in %v", step, k+1, blks[k].birth, want))
				}
			}
		case "append":
			x := blks[op.K-1]
			nt, err := toks[x.tok].Append(nil2rand(), x.b)
			if err != nil {
				return map[string]interface{}{"harness": fmt.Sprintf("step %d append: %v", step, err)}, nil
			}
			toks = append(toks, nt)
			birth = append(birth, observeTok(nt, pub))
		case "xappend":
			// a block built for ANOTHER token that declares a symbol the target already has: the library must refuse it
			// (SymHeap!CrossAppendRefused); if it is accepted all the same, the new token must carry what its callers put in
			x := blks[op.K-1]
			if nt, err := toks[op.T-1].Append(nil2rand(), x.b); err == nil {
				o := observeTok(nt, pub)
				want := append(append([]int{}, birth[op.T-1].Syms...), x.syms...)
				if !sameInts(o.Syms, want) {
					bad = append(bad, fmt.Sprintf("step %d xappend: block %d (built for token %d, sharing a symbol with token %d) was accepted by Append and the new token carries symbols %v, its callers put in %v",
						step, op.K, x.tok+1, op.T, o.Syms, want))
				}
			}
		case "getblockid":
			// the looked-up symbol occurs as the predicate name, as a top-level term or inside a set (name and other terms known)
			switch nm := symName(c.Emb, op.S); (c.Emb + int64(step)) % 3 {
			case 0:
				toks[op.T-1].GetBlockID(biscuit.Fact{Predicate: biscuit.Predicate{Name: nm, IDs: []biscuit.Term{biscuit.Integer(0)}}})
			case 1:
				toks[op.T-1].GetBlockID(biscuit.Fact{Predicate: biscuit.Predicate{Name: "right", IDs: []biscuit.Term{biscuit.String(nm)}}})
			default:
				toks[op.T-1].GetBlockID(biscuit.Fact{Predicate: biscuit.Predicate{Name: "right", IDs: []biscuit.Term{biscuit.Set{biscuit.String("read"), biscuit.String(nm)}}}})
			}
		case "seal":
			nt, err := toks[op.T-1].Seal(nil2rand())
			if err != nil {
				return map[string]interface{}{"harness": fmt.Sprintf("step %d seal: %v", step, err)}, nil
			}
			toks = append(toks, nt)
			birth = append(birth, observeTok(nt, pub))
		case "reload":
			ser, err := toks[op.T-1].Serialize()
			if err != nil {
				return nil, err
			}
			nt, err := biscuit.Unmarshal(ser)
			if err != nil {
				return map[string]interface{}{"harness": fmt.Sprintf("step %d reload: %v", step, err)}, nil
			}
			toks = append(toks, nt)
			birth = append(birth, observeTok(nt, pub))
		}
		// content at birth = what the caller put in
		if n := len(toks) - 1; (op.Op == "append" || op.Op == "seal" || op.Op == "reload" || op.Op == "buildroot") && n < len(c.Want) {
			if !sameInts(birth[n].Syms, c.Want[n]) {
				bad = append(bad, fmt.Sprintf("step %d (%s): token %d carries symbols %v, its callers put in %v", step, op.Op, n+1, birth[n].Syms, c.Want[n]))
			}
			if birth[n].Auth != "ok" {
				bad = append(bad, fmt.Sprintf("step %d (%s): token %d: %s", step, op.Op, n+1, birth[n].Auth))
			}
		}
		check(step, op)
	}
	_ = sync.Mutex{}
	return map[string]interface{}{"bad": bad, "tokens": len(toks), "blocks": len(blks)}, nil
}

func init() {
	families["heap"] = func(raw json.RawMessage) (interface{}, error) {
		var c HeapCase
		if err := json.Unmarshal(raw, &c); err != nil {
			return nil, err
		}
		return runHeap(&c)
	}
}

// generator: random interleavings biased towards what the property talks about: a parent token whose symbol table has
// grown (several symbols per block), several builders created from ONE parent, adds interleaved between them,
// builds and appends in any order, plus seal / reload / getblockid noise.
func init() {
	generators["heap"] = func(tier string, seed int64, out func(interface{})) {
		n := 1500
		if tier == "thorough" {
			n = 15000
		}
		r := newRand(seed)
		for i := 0; i < n; i++ {
			type tk struct{ sealed bool }
			toks := []tk{{}}
			type bbS struct {
				tok, adds  int
				live, root bool
			}
			bbs := []bbS{}
			blks := []int{} // parent token per built block
			hist := []HeapOp{}
			nsym := 0
			fresh := func() int { nsym++; return nsym }
			steps := 8 + r.Intn(18)
			reuse := i%2 == 1
			// phase 1: grow a chain of 0..6 blocks (0..3 symbols each) so that the newest token carries a table and a block
			// list of varying length -- every spare-capacity situation of the allocator occurs for some seed
			depth := r.Intn(7)
			for d := 0; d < depth; d++ {
				hist = append(hist, HeapOp{Op: "create", T: len(toks)})
				bbs = append(bbs, bbS{tok: len(toks), live: true})
				b := len(bbs)
				for k, n := 0, r.Intn(4); k < n && nsym < 9; k++ {
					hist = append(hist, HeapOp{Op: "add", B: b, S: fresh()})
					bbs[b-1].adds++
				}
				hist = append(hist, HeapOp{Op: "build", B: b})
				bbs[b-1].live = false
				blks = append(blks, bbs[b-1].tok)
				hist = append(hist, HeapOp{Op: "append", K: len(blks)})
				toks = append(toks, tk{})
			}
			if i%3 == 2 { // authority builders: filled, built, (in reuse mode) filled further and built again
				for nb := 1 + r.Intn(2); nb > 0; nb-- {
					hist = append(hist, HeapOp{Op: "newbuilder"})
					bbs = append(bbs, bbS{tok: 0, live: true, root: true})
					b := len(bbs)
					for k, n := 0, r.Intn(4); k < n && nsym < 9; k++ {
						hist = append(hist, HeapOp{Op: "add", B: b, S: fresh()})
						bbs[b-1].adds++
					}
					hist = append(hist, HeapOp{Op: "buildroot", B: b})
					toks = append(toks, tk{})
					bbs[b-1].live = reuse
				}
			}
			for s := 0; s < steps && len(toks) < 16; s++ {
				live := []int{}
				for b, x := range bbs {
					if x.live {
						live = append(live, b+1)
					}
				}
				switch k := r.Intn(10); {
				case k < 3 && len(bbs) < 12: // create (prefer the newest token: siblings share a parent)
					t := len(toks)
					if r.Intn(3) == 0 {
						t = 1 + r.Intn(len(toks))
					}
					hist = append(hist, HeapOp{Op: "create", T: t})
					bbs = append(bbs, bbS{tok: t, live: true})
				case k < 6 && len(live) > 0:
					b := live[r.Intn(len(live))]
					if bbs[b-1].adds >= 4 {
						continue
					}
					s := 0
					if nsym < 9 && r.Intn(4) != 0 {
						s = fresh()
					} else if nsym > 0 {
						s = 1 + r.Intn(nsym)
					} else {
						s = fresh()
					}
					hist = append(hist, HeapOp{Op: "add", B: b, S: s})
					bbs[b-1].adds++
				case k < 7 && len(live) > 0:
					b := live[r.Intn(len(live))]
					if bbs[b-1].root {
						hist = append(hist, HeapOp{Op: "buildroot", B: b})
						toks = append(toks, tk{})
						bbs[b-1].live = r.Intn(3) != 0
						continue
					}
					hist = append(hist, HeapOp{Op: "build", B: b})
					// Build does not consume a builder: in half of the histories it is filled further and built again
					bbs[b-1].live = reuse && r.Intn(3) != 0
					blks = append(blks, bbs[b-1].tok)
				case k < 8 && len(blks) > 0:
					kk := 1 + r.Intn(len(blks))
					if toks[blks[kk-1]-1].sealed {
						continue
					}
					hist = append(hist, HeapOp{Op: "append", K: kk})
					toks = append(toks, tk{})
				default:
					t := 1 + r.Intn(len(toks))
					switch r.Intn(4) {
					case 0:
						if !toks[t-1].sealed {
							hist = append(hist, HeapOp{Op: "seal", T: t})
							toks = append(toks, tk{sealed: true})
						}
					case 1:
						hist = append(hist, HeapOp{Op: "reload", T: t})
						toks = append(toks, tk{sealed: toks[t-1].sealed})
					default:
						s := 1 + r.Intn(9)
						hist = append(hist, HeapOp{Op: "getblockid", T: t, S: s})
					}
				}
			}
			// finish: build and append everything still open so that corrupted content becomes observable
			for b, x := range bbs {
				if x.live && x.root {
					hist = append(hist, HeapOp{Op: "buildroot", B: b + 1})
					toks = append(toks, tk{})
				} else if x.live {
					hist = append(hist, HeapOp{Op: "build", B: b + 1})
					blks = append(blks, x.tok)
				}
			}
			for k := range blks {
				if len(toks) < 24 && !toks[blks[k]-1].sealed && r.Intn(3) != 0 {
					hist = append(hist, HeapOp{Op: "append", K: k + 1})
					toks = append(toks, tk{})
				}
			}
			out(HeapCase{ID: fmt.Sprintf("h%d", i), Emb: seed*131 + int64(i), Hist: insertCross(hist, r)})
		}
	}
}

// insertCross replays a history abstractly (symbols per token, own symbols per built block) and inserts, after an append,
// "xappend" operations: a block built for another token whose own symbols overlap the new token's table (two builders of one
// parent that interned the same fresh symbol).  xappend changes nothing in the specification (CrossAppendRefused).
func insertCross(hist []HeapOp, r interface{ Intn(int) int }) []HeapOp {
	type set map[int]bool
	cp := func(s set) set {
		o := set{}
		for k := range s {
			o[k] = true
		}
		return o
	}
	toks := []set{{}}
	type bbT struct {
		tok  int
		adds []int
	}
	bbs := []bbT{}
	type blkT struct {
		tok int
		own set
	}
	blks := []blkT{}
	out := []HeapOp{}
	for _, op := range hist {
		out = append(out, op)
		switch op.Op {
		case "create":
			bbs = append(bbs, bbT{tok: op.T})
		case "newbuilder":
			bbs = append(bbs, bbT{tok: 0})
		case "add":
			bbs[op.B-1].adds = append(bbs[op.B-1].adds, op.S)
		case "build":
			b := bbs[op.B-1]
			own := set{}
			for _, s := range b.adds {
				if !toks[b.tok-1][s] {
					own[s] = true
				}
			}
			blks = append(blks, blkT{tok: b.tok, own: own})
		case "buildroot":
			t := set{}
			for _, s := range bbs[op.B-1].adds {
				t[s] = true
			}
			toks = append(toks, t)
		case "seal", "reload":
			toks = append(toks, cp(toks[op.T-1]))
		case "append":
			k := blks[op.K-1]
			t := cp(toks[k.tok-1])
			for s := range k.own {
				t[s] = true
			}
			toks = append(toks, t)
			nt := len(toks)
			for k2, b2 := range blks {
				if k2+1 == op.K || b2.tok == nt {
					continue
				}
				overlap := false
				for s := range b2.own {
					if t[s] {
						overlap = true
					}
				}
				if overlap && r.Intn(2) == 0 {
					out = append(out, HeapOp{Op: "xappend", K: k2 + 1, T: nt})
				}
			}
		}
	}
	return out
}
