package main

import (
	"encoding/json"
	"fmt"
	"runtime"
	"strings"
	"time"

	biscuit "github.com/biscuit-auth/biscuit-go/v2"
	"github.com/biscuit-auth/biscuit-go/v2/datalog"
)

// family "leak": one evaluation scenario of spec/GoRoutines.tla on the real engine; observes the outcome class,
// the wall-clock return time and the goroutines of package datalog that stay blocked after the call returned.
type LeakCase struct {
	ID    string `json:"id"`
	Need  int    `json:"need"`
	MI    int    `json:"mi"`
	Rules int    `json:"rules"`
	M     int    `json:"m"`
	Exit  string `json:"exit"`
	MF    bool   `json:"mf"`
	Timer bool   `json:"timer"` // tight duration budget so that the context expires during the evaluation
	Heavy int    `json:"heavy"` // size of the join used to make an iteration slow (timer scenarios)
	Via   string `json:"via"`   // world | authorizerfor | authorizer | newverifier
	Emb   int64  `json:"emb"`
}

type LeakObs struct {
	Res       string   `json:"res"`
	ElapsedMs float64  `json:"elapsed_ms"`
	BudgetMs  float64  `json:"budget_ms"`
	Stranded  int      `json:"stranded"`
	Where     []string `json:"where,omitempty"`
	Msg       string   `json:"msg,omitempty"`
}

// datalogGoroutines returns (#blocked on a channel, #otherwise alive, descriptions) of goroutines started by package datalog.
func datalogGoroutines() (blocked int, active int, where []string) {
	buf := make([]byte, 1<<20)
	for {
		n := runtime.Stack(buf, true)
		if n < len(buf) {
			buf = buf[:n]
			break
		}
		buf = make([]byte, 2*len(buf))
	}
	for _, g := range strings.Split(string(buf), "\n\n") {
		if !strings.Contains(g, "datalog.combine.func1") && !strings.Contains(g, "datalog.(*World).Run.func1") {
			continue
		}
		if strings.Contains(g, "main.datalogGoroutines") {
			continue
		}
		head := g[:strings.Index(g+"\n", "\n")]
		st := head[strings.Index(head, "[")+1:]
		if strings.HasPrefix(st, "chan send") || strings.HasPrefix(st, "chan receive") || strings.HasPrefix(st, "select") {
			blocked++
			fn := "combine producer"
			if strings.Contains(g, "Run.func1") && !strings.Contains(g, "combine.func1") {
				fn = "Run goroutine"
			}
			where = append(where, fn+" ["+strings.TrimSuffix(st, "]:")+"]")
		} else {
			active++
		}
	}
	return
}

func settle(before int) (int, []string) {
	deadline := time.Now().Add(4 * time.Second)
	last, stable := -1, 0
	var where []string
	for time.Now().Before(deadline) {
		b, a, w := datalogGoroutines()
		where = w
		if a == 0 {
			if b-before <= 0 {
				return 0, nil
			}
			if b == last {
				stable++
				if stable >= 4 {
					return b - before, w
				}
			} else {
				stable = 0
			}
			last = b
		}
		time.Sleep(15 * time.Millisecond)
	}
	b, _, w := datalogGoroutines()
	_ = where
	return b - before, w
}

func leakProgram(c *LeakCase) (facts []biscuit.Fact, rules []biscuit.Rule, final int) {
	P := func(n string, ids ...biscuit.Term) biscuit.Predicate { return biscuit.Predicate{Name: n, IDs: ids} }
	x, y, z := biscuit.Variable("x"), biscuit.Variable("y"), biscuit.Variable("z")
	m := c.M
	if c.Heavy > 0 {
		m = c.Heavy
	}
	for i := 0; i < m; i++ {
		facts = append(facts, biscuit.Fact{Predicate: P("p", biscuit.Integer(int64(i)))})
	}
	body := []biscuit.Predicate{P("p", x)}
	if c.Heavy > 0 {
		body = []biscuit.Predicate{P("p", x), P("p", y), P("p", z)} // cubic join: one rule application takes milliseconds
	}
	head := P("p", x) // re-derives existing facts: fixpoint confirmed in the first iteration
	final = m
	if c.Need >= 2 {
		head = P("q", x)
		final = 2 * m
	}
	var exprs []biscuit.Expression
	switch c.Exit {
	case "invalid":
		head = P("q", biscuit.Variable("missing"))
	case "invalid+err":
		// first combination passes the expression and trips the invalid head; a later one makes the expression fail
		head = P("q", biscuit.Variable("missing"))
		facts = append(facts[:1:1], biscuit.Fact{Predicate: P("p", biscuit.String("not an integer"))})
		for i := 2; i < m; i++ {
			facts = append(facts, biscuit.Fact{Predicate: P("p", biscuit.Integer(int64(i)))})
		}
		exprs = []biscuit.Expression{{biscuit.Value{Term: x}, biscuit.Value{Term: biscuit.Integer(1000000)}, biscuit.BinaryLessThan}}
	case "exprerr":
		exprs = []biscuit.Expression{{biscuit.Value{Term: biscuit.Integer(1)}, biscuit.Value{Term: biscuit.Integer(0)}, biscuit.BinaryDiv,
			biscuit.Value{Term: biscuit.Integer(1)}, biscuit.BinaryEqual}}
	}
	for r := 0; r < c.Rules; r++ {
		rules = append(rules, biscuit.Rule{Head: head, Body: body, Expressions: exprs})
	}
	return
}

func runLeak(c *LeakCase) (interface{}, error) {
	facts, rules, final := leakProgram(c)
	budget := 20 * time.Second
	if c.Timer {
		budget = 300 * time.Microsecond
	}
	opts := []datalog.WorldOption{datalog.WithMaxDuration(budget), datalog.WithMaxIterations(c.MI)}
	if c.MF {
		opts = append(opts, datalog.WithMaxFacts(final-1))
	} else {
		opts = append(opts, datalog.WithMaxFacts(1000000))
	}
	before, _, _ := datalogGoroutines()
	var err error
	t0 := time.Now()
	switch c.Via {
	case "world":
		syms := &datalog.SymbolTable{}
		w := datalog.NewWorld(opts...)
		for _, f := range facts {
			w.AddFact(datalog.Fact{Predicate: dlPredicate(f.Predicate, syms)})
		}
		for _, r := range rules {
			w.AddRule(dlRule(r, syms))
		}
		t0 = time.Now()
		err = w.Run(syms)
	default:
		pub, priv := rootKey(1)
		b := biscuit.NewBuilder(priv)
		for _, f := range facts {
			if e := b.AddAuthorityFact(f); e != nil {
				return nil, e
			}
		}
		for _, r := range rules {
			if e := b.AddAuthorityRule(r); e != nil {
				return nil, e
			}
		}
		tok, e := b.Build()
		if e != nil {
			return nil, e
		}
		var a biscuit.Authorizer
		switch c.Via {
		case "authorizer":
			a, e = tok.Authorizer(pub, biscuit.WithWorldOptions(opts...))
		case "newverifier":
			a, e = biscuit.NewVerifier(tok, biscuit.WithWorldOptions(opts...))
		default:
			a, e = tok.AuthorizerFor(biscuit.WithSingularRootPublicKey(pub), biscuit.WithWorldOptions(opts...))
		}
		if e != nil {
			return nil, e
		}
		a.AddPolicy(biscuit.DefaultAllowPolicy)
		t0 = time.Now()
		err = a.Authorize()
	}
	el := time.Since(t0)
	obs := LeakObs{Res: classify(err), ElapsedMs: float64(el.Microseconds()) / 1000, BudgetMs: float64(budget.Microseconds()) / 1000}
	if err != nil {
		obs.Msg = trunc(err.Error(), 160)
	}
	obs.Stranded, obs.Where = settle(before)
	return obs, nil
}

func init() {
	families["leak"] = func(raw json.RawMessage) (interface{}, error) {
		var c LeakCase
		if err := json.Unmarshal(raw, &c); err != nil {
			return nil, err
		}
		return runLeak(&c)
	}
	_ = fmt.Sprint
}
