// Command driver is the conformance harness that binds the TLA+ specification in /verif/spec to
// the real biscuit-go code in /repo (replace directive). Protocol:
//
//	driver run <family> [args]   cases (ndjson, each with "id") on stdin;
//	                             per case: "S <id>\n" then "R <id> <json>\n" on stdout
//	driver gen <family> <tier> <seed>   prints generated cases (ndjson) on stdout
package main

import (
	"bufio"
	"encoding/json"
	"fmt"
	"os"
	"runtime/debug"
)

type handler func(raw json.RawMessage) (interface{}, error)
type generator func(tier string, seed int64, out func(interface{}))

var families = map[string]handler{}
var generators = map[string]generator{}

type idOnly struct {
	ID string `json:"id"`
}

func safe(h handler, raw json.RawMessage) (res interface{}) {
	defer func() {
		if r := recover(); r != nil {
			res = map[string]interface{}{"panic": fmt.Sprint(r), "stack": string(debug.Stack())}
		}
	}()
	v, err := h(raw)
	if err != nil {
		return map[string]interface{}{"harness_error": err.Error()}
	}
	return v
}

func main() {
	if len(os.Args) < 3 {
		fmt.Fprintln(os.Stderr, "usage: driver run|gen <family> ...")
		os.Exit(2)
	}
	switch os.Args[1] {
	case "run":
		h, ok := families[os.Args[2]]
		if !ok {
			fmt.Fprintln(os.Stderr, "unknown family", os.Args[2])
			os.Exit(2)
		}
		inF, outF := os.Stdin, os.Stdout
		for i := 3; i+1 < len(os.Args); i++ {
			var err error
			switch os.Args[i] {
			case "-i":
				inF, err = os.Open(os.Args[i+1])
			case "-o":
				outF, err = os.OpenFile(os.Args[i+1], os.O_WRONLY|os.O_APPEND|os.O_CREATE, 0o644)
			}
			if err != nil {
				fmt.Fprintln(os.Stderr, err)
				os.Exit(2)
			}
		}
		in := bufio.NewReaderSize(inF, 1<<20)
		out := bufio.NewWriterSize(outF, 1<<16)
		defer out.Flush()
		for {
			line, err := in.ReadBytes('\n')
			if len(line) > 1 {
				var id idOnly
				if e := json.Unmarshal(line, &id); e != nil {
					fmt.Fprintln(os.Stderr, "bad case:", e)
					os.Exit(2)
				}
				fmt.Fprintf(out, "S %s\n", id.ID)
				out.Flush()
				res := safe(h, json.RawMessage(line))
				b, e := json.Marshal(res)
				if e != nil {
					b, _ = json.Marshal(map[string]string{"harness_error": e.Error()})
				}
				fmt.Fprintf(out, "R %s %s\n", id.ID, b)
				out.Flush()
			}
			if err != nil {
				break
			}
		}
	case "gen":
		g, ok := generators[os.Args[2]]
		if !ok || len(os.Args) < 5 {
			fmt.Fprintln(os.Stderr, "usage: driver gen <family> <tier> <seed>")
			os.Exit(2)
		}
		var seed int64
		fmt.Sscan(os.Args[4], &seed)
		out := bufio.NewWriterSize(os.Stdout, 1<<16)
		defer out.Flush()
		n := 0
		g(os.Args[3], seed, func(c interface{}) {
			b, _ := json.Marshal(c)
			out.Write(b)
			out.WriteByte('\n')
			n++
		})
	default:
		fmt.Fprintln(os.Stderr, "unknown command", os.Args[1])
		os.Exit(2)
	}
}
