package main

import (
	"encoding/json"
	"fmt"
	"runtime/debug"
	"time"

	biscuit "github.com/biscuit-auth/biscuit-go/v2"
	"github.com/biscuit-auth/biscuit-go/v2/datalog"
	pw "google.golang.org/protobuf/encoding/protowire"
)

// family "polcorrupt" (C18): authorizer snapshots (AuthorizerPolicies) that are malformed -- seeded byte corruption of a real
// snapshot, and hand-encoded messages with adversarial fields -- must make LoadPolicies return an error or load, never panic,
// and a subsequently evaluated authorizer must not panic either.
type PolCase struct {
	ID      string `json:"id"`
	Emb     int64  `json:"emb"`
	Az      *AAz   `json:"az"`
	Corrupt int64  `json:"corrupt"`
	Knob    string `json:"knob"`
}

func runPolCorrupt(c *PolCase) (res interface{}, herr error) {
	e := newEmbed(c.Emb, cmpOfRules(c.Az.R))
	pub, priv := rootKey(1)
	b := biscuit.NewBuilder(priv)
	tok, err := b.Build()
	if err != nil {
		return nil, err
	}
	a, err := tok.AuthorizerFor(biscuit.WithSingularRootPublicKey(pub))
	if err != nil {
		return nil, err
	}
	for _, f := range c.Az.F {
		a.AddFact(e.Fact(f))
	}
	for _, r := range c.Az.R {
		a.AddRule(e.Rule(r))
	}
	for _, ch := range c.Az.C {
		a.AddCheck(e.Check(ch))
	}
	for _, p := range c.Az.P {
		a.AddPolicy(e.Policy(p))
	}
	snap, err := a.SerializePolicies()
	if err != nil {
		return nil, err
	}
	raw := snap
	must := "" // "error": the message must be refused
	switch c.Knob {
	case "":
	case "version-absent", "version-0", "version-4":
		// rebuild the message without field 2 / with another version
		var out []byte
		fields(snap, func(num pw.Number, typ pw.Type, v []byte, u uint64) error {
			if num == 2 {
				return nil
			}
			out = pw.AppendTag(out, num, typ)
			if typ == pw.VarintType {
				out = pw.AppendVarint(out, u)
			} else {
				out = pw.AppendBytes(out, v)
			}
			return nil
		})
		switch c.Knob {
		case "version-0":
			out = append(out, fVar(2, 0)...)
		case "version-4":
			out = append(out, fVar(2, 4)...)
		}
		raw = out // an unsupported snapshot version: refused by the library today; the property only requires "no panic"
	case "policy-kind-99":
		raw = append(append([]byte{}, snap...), fBytes(6, msg(fBytes(1, ruleW(predW(27), nil, nil)), fVar(2, 99)))...)
	case "policy-kind-neg":
		raw = append(append([]byte{}, snap...), fBytes(6, msg(fBytes(1, ruleW(predW(27), nil, nil)), fVar(2, ^uint64(0))))...)
	case "policy-no-kind":
		raw = append(append([]byte{}, snap...), fBytes(6, fBytes(1, ruleW(predW(27), nil, nil)))...)
		must = "error"
	case "fact-index-2^63":
		raw = append(append([]byte{}, snap...), fBytes(3, fBytes(1, predW(1<<63, tStr(1<<63))))...)
	case "check-empty-op":
		raw = append(append([]byte{}, snap...), fBytes(5, checkW(ruleW(predW(27), nil, [][]byte{exprW([]byte{})})))...)
		must = "error"
	case "rule-set-bytes":
		raw = append(append([]byte{}, snap...), fBytes(3, fBytes(1, predW(2, tSet(tBytes([]byte{1})))))...)
		raw = append(raw, fBytes(4, ruleW(predW(2, tInt(1)), [][]byte{predW(2, tSet(tBytes([]byte{1})))}, nil))...)
	}
	if c.Corrupt != 0 {
		raw = corrupt(raw, c.Corrupt)
		must = ""
	}
	out := map[string]interface{}{"panic": ""}
	func() {
		defer func() {
			if r := recover(); r != nil {
				out["panic"] = fmt.Sprint(r)
				out["stack"] = trunc(string(debug.Stack()), 3000)
			}
		}()
		// a generous duration: with the 2 ms default the evaluation below times out under machine load, and what follows then
		// depends on the scheduling of the evaluation goroutine that is still running (see DESIGN.md 12.4)
		f, err := tok.AuthorizerFor(biscuit.WithSingularRootPublicKey(pub), biscuit.WithWorldOptions(datalog.WithMaxDuration(20*time.Second)))
		if err != nil {
			return
		}
		lerr := f.LoadPolicies(raw)
		out["loaded"] = lerr == nil
		if lerr == nil {
			f.Authorize()
			_ = f.PrintWorld()
			f.Query(biscuit.Rule{Head: biscuit.Predicate{Name: "q", IDs: []biscuit.Term{biscuit.Variable("x")}},
				Body: []biscuit.Predicate{{Name: "resource", IDs: []biscuit.Term{biscuit.Variable("x")}}}})
		}
	}()
	out["must"] = must
	return out, nil
}

func init() {
	families["polcorrupt"] = func(raw json.RawMessage) (interface{}, error) {
		var c PolCase
		if err := json.Unmarshal(raw, &c); err != nil {
			return nil, err
		}
		return runPolCorrupt(&c)
	}
}
