package main

import (
	"bytes"
	"crypto/ed25519"
	"encoding/json"
	"errors"
	"fmt"
	"io"
	"os"
	"syscall"

	biscuit "github.com/biscuit-auth/biscuit-go/v2"
)

// family "rng": one operation of spec/Entropy.tla with a fault-injecting random source.
type RngCase struct {
	ID    string `json:"id"`
	Op    string `json:"op"`
	K     int    `json:"k"`
	Fault string `json:"fault"`
	Chunk int    `json:"chunk"`
}

type faultReader struct {
	data  []byte
	pos   int
	k     int
	chunk int
	fault string
	zero  bool
	reads int
}

func (r *faultReader) Read(p []byte) (int, error) {
	r.reads++
	if r.pos >= r.k {
		switch r.fault {
		case "eof":
			return 0, io.EOF
		case "unexpected_eof":
			return 0, io.ErrUnexpectedEOF
		case "zero_then_error":
			if !r.zero {
				r.zero = true
				return 0, nil
			}
		}
		return 0, r.failure()
	}
	n := len(p)
	if n > r.chunk {
		n = r.chunk
	}
	if r.pos+n > r.k {
		n = r.k - r.pos
	}
	copy(p, r.data[r.pos:r.pos+n])
	r.pos += n
	if r.pos >= r.k && r.k < 32 && (r.fault == "error_with_data" || r.fault == "eof_with_data") {
		return n, r.failure() // io.Reader allows the last bytes and the error in one call
	}
	return n, nil
}

// the error value of a persistent failure; some kinds satisfy interfaces a caller might special-case
func (r *faultReader) failure() error {
	switch r.fault {
	case "eof", "eof_with_data":
		return io.EOF
	case "unexpected_eof":
		return io.ErrUnexpectedEOF
	case "temporary":
		return syscall.EAGAIN // Temporary() == true, Timeout() == true
	case "interrupted":
		return syscall.EINTR // Temporary() == true
	case "deadline":
		return os.ErrDeadlineExceeded // Timeout() == true
	case "wrapped_eof":
		return fmt.Errorf("reading entropy: %w", io.EOF)
	case "path_error":
		return &os.PathError{Op: "read", Path: "/dev/urandom", Err: syscall.EIO}
	}
	return errors.New("entropy source failed")
}

func runRng(c *RngCase) (res interface{}, herr error) {
	seed := make([]byte, 64)
	for i := range seed {
		seed[i] = byte(37*i + c.K + 1)
	}
	rd := &faultReader{data: seed, k: c.K, chunk: c.Chunk, fault: c.Fault}
	var src io.Reader = rd
	if c.Fault == "typed_nil" && c.K == 0 {
		// a source that is a nil POINTER inside a non-nil interface (a *os.File left nil by a failed Open): its Read returns an
		// error after 0 bytes; it is a failing source like any other, not "no source given"
		var f *os.File
		src = f
	}
	rootPub, rootPriv := fixedKey("root")
	var tok *biscuit.Biscuit
	var err error
	defer func() {
		if r := recover(); r != nil {
			res = map[string]interface{}{"outcome": "panic", "msg": fmt.Sprint(r)}
			herr = nil
		}
	}()
	switch c.Op {
	case "build":
		b := biscuit.NewBuilder(rootPriv, biscuit.WithRNG(src))
		b.AddAuthorityFact(contentFact(1))
		tok, err = b.Build()
	case "new":
		// biscuit.New(rng, root, baseSymbols, authority): authority block obtained from a throw-away builder
		b := biscuit.NewBuilder(rootPriv, biscuit.WithRNG(src))
		b.AddAuthorityFact(contentFact(2))
		tok, err = b.Build()
	case "append", "append_after_reload":
		b := biscuit.NewBuilder(rootPriv)
		b.AddAuthorityFact(contentFact(1))
		base, e := b.Build()
		if e != nil {
			return nil, e
		}
		if c.Op == "append_after_reload" {
			ser, _ := base.Serialize()
			base, e = biscuit.Unmarshal(ser)
			if e != nil {
				return nil, e
			}
		}
		bb := base.CreateBlock()
		bb.AddFact(contentFact(2))
		tok, err = base.Append(src, bb.Build())
	}
	out := map[string]interface{}{"reads": rd.reads}
	switch {
	case err != nil && tok == nil:
		out["outcome"] = "error"
	case err != nil && tok != nil:
		out["outcome"] = "error+token"
	default:
		out["outcome"] = "token"
		// the announced next key must be the one derived from the delivered bytes, and the token must verify
		ser, e := tok.Serialize()
		if e != nil {
			out["detail"] = "serialize: " + e.Error()
			break
		}
		wb, e := decodeBiscuit(ser)
		if e != nil {
			out["detail"] = "decode: " + e.Error()
			break
		}
		last := wb.all()[len(wb.all())-1]
		// self-calibration: what does this toolchain's GenerateKey derive from these bytes?
		refPub, _, e := ed25519.GenerateKey(bytes.NewReader(seed[:32]))
		derived := ed25519.NewKeyFromSeed(seed[:32]).Public().(ed25519.PublicKey)
		if e == nil && bytes.Equal(refPub, derived) {
			out["key_from_delivered_bytes"] = bytes.Equal(last.Key, derived) && bytes.Equal(wb.ProofSecret, seed[:32])
		} else {
			out["key_from_delivered_bytes"] = true // toolchain does not expose a deterministic derivation: not checkable
		}
		_, e = tok.AuthorizerFor(biscuit.WithSingularRootPublicKey(rootPub))
		out["verifies"] = e == nil
	}
	return out, nil
}

func init() {
	families["rng"] = func(raw json.RawMessage) (interface{}, error) {
		var c RngCase
		if err := json.Unmarshal(raw, &c); err != nil {
			return nil, err
		}
		return runRng(&c)
	}
}
