package main

import (
	"crypto/rand"
	"io"
)

func nil2rand() io.Reader { return rand.Reader }
