package main

import (
	mrand "math/rand"
	"crypto/rand"
	"io"
)

func nil2rand() io.Reader { return rand.Reader }

func newRand(seed int64) *mrand.Rand { return mrand.New(mrand.NewSource(seed)) }
