package main

import (
	"fmt"

	"github.com/biscuit-auth/biscuit-go/v2/datalog"
)

// JSON mirror of spec/Values.tla (tagged records).
type BigI struct {
	Neg bool  `json:"neg"`
	M   []int `json:"m"`
}

type Val struct {
	T string  `json:"t"`
	I *BigI   `json:"i,omitempty"`
	S *[]int  `json:"s,omitempty"`
	D *[]int  `json:"d,omitempty"`
	Y *[]int  `json:"y,omitempty"`
	B *bool   `json:"b,omitempty"`
	E *[]Val  `json:"e,omitempty"`
}

func limbsOf(u uint64) []int {
	out := []int{}
	for u != 0 {
		out = append(out, int(u&8191))
		u >>= 13
	}
	return out
}

func fromLimbs(m []int) (uint64, bool) {
	var u uint64
	for i := len(m) - 1; i >= 0; i-- {
		if u>>(64-13) != 0 {
			return 0, false
		}
		u = u<<13 | uint64(m[i])
	}
	return u, true
}

func bigOf(i int64) *BigI {
	if i < 0 {
		return &BigI{Neg: true, M: limbsOf(uint64(-(i + 1)) + 1)}
	}
	return &BigI{Neg: false, M: limbsOf(uint64(i))}
}

func (b *BigI) int64() (int64, error) {
	u, ok := fromLimbs(b.M)
	if !ok {
		return 0, fmt.Errorf("magnitude too large")
	}
	if b.Neg {
		if u > 1<<63 {
			return 0, fmt.Errorf("out of range")
		}
		return int64(-u), nil // -2^63 wraps to itself as intended
	}
	if u >= 1<<63 {
		return 0, fmt.Errorf("out of range")
	}
	return int64(u), nil
}

func codes(b []byte) *[]int {
	out := make([]int, len(b))
	for i, c := range b {
		out[i] = int(c)
	}
	return &out
}

func bytesOf(c *[]int) []byte {
	if c == nil {
		return []byte{}
	}
	out := make([]byte, len(*c))
	for i, v := range *c {
		out[i] = byte(v)
	}
	return out
}

func vInt(i int64) Val     { return Val{T: "int", I: bigOf(i)} }
func vStr(s string) Val    { return Val{T: "str", S: codes([]byte(s))} }
func vDate(u uint64) Val   { l := limbsOf(u); return Val{T: "date", D: &l} }
func vBytes(b []byte) Val  { return Val{T: "bytes", Y: codes(b)} }
func vBool(b bool) Val     { return Val{T: "bool", B: &b} }
func vSet(e ...Val) Val    { return Val{T: "set", E: &e} }

// toTerm converts a spec value to a datalog term, interning strings into syms.
func (v Val) toTerm(syms *datalog.SymbolTable) (datalog.Term, error) {
	switch v.T {
	case "int":
		i, err := v.I.int64()
		if err != nil {
			return nil, err
		}
		return datalog.Integer(i), nil
	case "str":
		return syms.Insert(string(bytesOf(v.S))), nil
	case "date":
		u, ok := fromLimbs(*v.D)
		if !ok {
			return nil, fmt.Errorf("date too large")
		}
		return datalog.Date(u), nil
	case "bytes":
		return datalog.Bytes(bytesOf(v.Y)), nil
	case "bool":
		return datalog.Bool(*v.B), nil
	case "set":
		s := make(datalog.Set, 0, len(*v.E))
		for _, e := range *v.E {
			t, err := e.toTerm(syms)
			if err != nil {
				return nil, err
			}
			s = append(s, t)
		}
		return s, nil
	}
	return nil, fmt.Errorf("bad value tag %q", v.T)
}

// fromTerm abstracts a datalog term back into a spec value.
func fromTerm(t datalog.Term, syms *datalog.SymbolTable) (Val, error) {
	switch x := t.(type) {
	case datalog.Integer:
		return vInt(int64(x)), nil
	case datalog.String:
		return vStr(syms.Str(x)), nil
	case datalog.Date:
		return vDate(uint64(x)), nil
	case datalog.Bytes:
		return vBytes([]byte(x)), nil
	case datalog.Bool:
		return vBool(bool(x)), nil
	case datalog.Set:
		es := make([]Val, 0, len(x))
		for _, e := range x {
			v, err := fromTerm(e, syms)
			if err != nil {
				return Val{}, err
			}
			es = append(es, v)
		}
		return vSet(es...), nil
	}
	return Val{}, fmt.Errorf("unexpected term %T", t)
}
