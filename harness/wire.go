package main

import (
	"fmt"

	"google.golang.org/protobuf/encoding/protowire"
)

// Independent codec for the Biscuit wire format, written directly on protowire from the published schema
// (pb/biscuit.proto). It deliberately does NOT import the library's pb package or converters, so that a
// consistent two-way change inside the library is still seen from outside.

type WSigned struct {
	Block []byte
	Alg   uint64
	Key   []byte
	Sig   []byte
}

type WBiscuit struct {
	RootKeyID   *uint32
	Authority   WSigned
	Blocks      []WSigned
	ProofSecret []byte // nil when absent
	ProofFinal  []byte
}

func fields(b []byte, f func(num protowire.Number, typ protowire.Type, v []byte, u uint64) error) error {
	for len(b) > 0 {
		num, typ, n := protowire.ConsumeTag(b)
		if n < 0 {
			return fmt.Errorf("bad tag")
		}
		b = b[n:]
		switch typ {
		case protowire.VarintType:
			u, n := protowire.ConsumeVarint(b)
			if n < 0 {
				return fmt.Errorf("bad varint")
			}
			b = b[n:]
			if err := f(num, typ, nil, u); err != nil {
				return err
			}
		case protowire.BytesType:
			v, n := protowire.ConsumeBytes(b)
			if n < 0 {
				return fmt.Errorf("bad bytes")
			}
			b = b[n:]
			if err := f(num, typ, v, 0); err != nil {
				return err
			}
		default:
			n := protowire.ConsumeFieldValue(num, typ, b)
			if n < 0 {
				return fmt.Errorf("bad field")
			}
			b = b[n:]
		}
	}
	return nil
}

func decodeSigned(b []byte) (WSigned, error) {
	var s WSigned
	err := fields(b, func(num protowire.Number, typ protowire.Type, v []byte, u uint64) error {
		switch num {
		case 1:
			s.Block = append([]byte{}, v...)
		case 2:
			return fields(v, func(n2 protowire.Number, t2 protowire.Type, v2 []byte, u2 uint64) error {
				switch n2 {
				case 1:
					s.Alg = u2
				case 2:
					s.Key = append([]byte{}, v2...)
				}
				return nil
			})
		case 3:
			s.Sig = append([]byte{}, v...)
		}
		return nil
	})
	return s, err
}

func decodeBiscuit(b []byte) (*WBiscuit, error) {
	w := &WBiscuit{}
	err := fields(b, func(num protowire.Number, typ protowire.Type, v []byte, u uint64) error {
		switch num {
		case 1:
			id := uint32(u)
			w.RootKeyID = &id
		case 2:
			s, err := decodeSigned(v)
			w.Authority = s
			return err
		case 3:
			s, err := decodeSigned(v)
			w.Blocks = append(w.Blocks, s)
			return err
		case 4:
			return fields(v, func(n2 protowire.Number, t2 protowire.Type, v2 []byte, u2 uint64) error {
				switch n2 {
				case 1:
					w.ProofSecret = append([]byte{}, v2...)
				case 2:
					w.ProofFinal = append([]byte{}, v2...)
				}
				return nil
			})
		}
		return nil
	})
	return w, err
}

func (s WSigned) encode() []byte {
	var pk []byte
	pk = protowire.AppendTag(pk, 1, protowire.VarintType)
	pk = protowire.AppendVarint(pk, s.Alg)
	pk = protowire.AppendTag(pk, 2, protowire.BytesType)
	pk = protowire.AppendBytes(pk, s.Key)
	var b []byte
	b = protowire.AppendTag(b, 1, protowire.BytesType)
	b = protowire.AppendBytes(b, s.Block)
	b = protowire.AppendTag(b, 2, protowire.BytesType)
	b = protowire.AppendBytes(b, pk)
	b = protowire.AppendTag(b, 3, protowire.BytesType)
	b = protowire.AppendBytes(b, s.Sig)
	return b
}

func (w *WBiscuit) encode() []byte {
	var b []byte
	if w.RootKeyID != nil {
		b = protowire.AppendTag(b, 1, protowire.VarintType)
		b = protowire.AppendVarint(b, uint64(*w.RootKeyID))
	}
	b = protowire.AppendTag(b, 2, protowire.BytesType)
	b = protowire.AppendBytes(b, w.Authority.encode())
	for _, s := range w.Blocks {
		b = protowire.AppendTag(b, 3, protowire.BytesType)
		b = protowire.AppendBytes(b, s.encode())
	}
	var p []byte
	if w.ProofSecret != nil {
		p = protowire.AppendTag(p, 1, protowire.BytesType)
		p = protowire.AppendBytes(p, w.ProofSecret)
	}
	if w.ProofFinal != nil {
		p = protowire.AppendTag(p, 2, protowire.BytesType)
		p = protowire.AppendBytes(p, w.ProofFinal)
	}
	b = protowire.AppendTag(b, 4, protowire.BytesType)
	b = protowire.AppendBytes(b, p)
	return b
}

func (w *WBiscuit) all() []WSigned { return append([]WSigned{w.Authority}, w.Blocks...) }

// signedPayloadW is the byte string a block signature covers per the specification:
// block || algorithm (u32 LE) || next public key; the seal additionally covers the last signature.
func signedPayloadW(s WSigned, lastSig []byte) []byte {
	p := append([]byte{}, s.Block...)
	p = append(p, byte(s.Alg), byte(s.Alg>>8), byte(s.Alg>>16), byte(s.Alg>>24))
	p = append(p, s.Key...)
	p = append(p, lastSig...)
	return p
}

// ---- Block level (used by the wire-fidelity family) -------------------------------------------------

type WTerm struct {
	Kind string // variable integer string date bytes bool set
	U    uint64
	I    int64
	B    []byte
	Set  []WTerm
}

type WPred struct {
	Name  uint64
	Terms []WTerm
}

type WOp struct {
	Kind  string // value unary binary
	Term  *WTerm
	Code  uint64
}

type WRule struct {
	Head  WPred
	Body  []WPred
	Exprs [][]WOp
}

type WBlock struct {
	Symbols    []string
	Context    *string
	Version    *uint64
	Facts      []WPred
	Rules      []WRule
	Checks     [][]WRule
	UnknownTop int
}

func decodeTerm(b []byte) (WTerm, error) {
	var t WTerm
	n := 0
	err := fields(b, func(num protowire.Number, typ protowire.Type, v []byte, u uint64) error {
		n++
		switch num {
		case 1:
			t = WTerm{Kind: "variable", U: u}
		case 2:
			t = WTerm{Kind: "integer", I: int64(u)}
		case 3:
			t = WTerm{Kind: "string", U: u}
		case 4:
			t = WTerm{Kind: "date", U: u}
		case 5:
			t = WTerm{Kind: "bytes", B: append([]byte{}, v...)}
		case 6:
			t = WTerm{Kind: "bool", U: u}
		case 7:
			t = WTerm{Kind: "set"}
			return fields(v, func(n2 protowire.Number, t2 protowire.Type, v2 []byte, u2 uint64) error {
				if n2 == 1 {
					e, err := decodeTerm(v2)
					t.Set = append(t.Set, e)
					return err
				}
				return nil
			})
		default:
			return fmt.Errorf("unknown term field %d", num)
		}
		return nil
	})
	if err == nil && n != 1 {
		err = fmt.Errorf("term with %d fields", n)
	}
	return t, err
}

func decodePred(b []byte) (WPred, error) {
	var p WPred
	err := fields(b, func(num protowire.Number, typ protowire.Type, v []byte, u uint64) error {
		switch num {
		case 1:
			p.Name = u
		case 2:
			t, err := decodeTerm(v)
			p.Terms = append(p.Terms, t)
			return err
		}
		return nil
	})
	return p, err
}

func decodeRule(b []byte) (WRule, error) {
	var r WRule
	err := fields(b, func(num protowire.Number, typ protowire.Type, v []byte, u uint64) error {
		switch num {
		case 1:
			p, err := decodePred(v)
			r.Head = p
			return err
		case 2:
			p, err := decodePred(v)
			r.Body = append(r.Body, p)
			return err
		case 3:
			ops := []WOp{}
			err := fields(v, func(n2 protowire.Number, t2 protowire.Type, v2 []byte, u2 uint64) error {
				if n2 != 1 {
					return nil
				}
				var op WOp
				err := fields(v2, func(n3 protowire.Number, t3 protowire.Type, v3 []byte, u3 uint64) error {
					switch n3 {
					case 1:
						t, err := decodeTerm(v3)
						op = WOp{Kind: "value", Term: &t}
						return err
					case 2, 3:
						kind := "unary"
						if n3 == 3 {
							kind = "binary"
						}
						op = WOp{Kind: kind}
						return fields(v3, func(n4 protowire.Number, t4 protowire.Type, v4 []byte, u4 uint64) error {
							if n4 == 1 {
								op.Code = u4
							}
							return nil
						})
					}
					return nil
				})
				ops = append(ops, op)
				return err
			})
			r.Exprs = append(r.Exprs, ops)
			return err
		}
		return nil
	})
	return r, err
}

func decodeBlock(b []byte) (*WBlock, error) {
	w := &WBlock{}
	err := fields(b, func(num protowire.Number, typ protowire.Type, v []byte, u uint64) error {
		switch num {
		case 1:
			w.Symbols = append(w.Symbols, string(v))
		case 2:
			s := string(v)
			w.Context = &s
		case 3:
			uu := u
			w.Version = &uu
		case 4:
			return fields(v, func(n2 protowire.Number, t2 protowire.Type, v2 []byte, u2 uint64) error {
				if n2 == 1 {
					p, err := decodePred(v2)
					w.Facts = append(w.Facts, p)
					return err
				}
				return nil
			})
		case 5:
			r, err := decodeRule(v)
			w.Rules = append(w.Rules, r)
			return err
		case 6:
			qs := []WRule{}
			err := fields(v, func(n2 protowire.Number, t2 protowire.Type, v2 []byte, u2 uint64) error {
				if n2 == 1 {
					r, err := decodeRule(v2)
					qs = append(qs, r)
					return err
				}
				return nil
			})
			w.Checks = append(w.Checks, qs)
			return err
		default:
			w.UnknownTop++
		}
		return nil
	})
	return w, err
}
