package main

import (
	"bytes"
	"crypto/ed25519"
	"encoding/hex"
	"encoding/json"
	"fmt"
	"math"
	"strconv"
	"time"

	biscuit "github.com/biscuit-auth/biscuit-go/v2"
	"github.com/biscuit-auth/biscuit-go/v2/datalog"
	"google.golang.org/protobuf/encoding/protowire"
)

// family "wire" (C07): caller-level content -> real builders -> Serialize -> independent decode.
// The content and the decoded wire form are handed to TLC (TraceWire); round-trip observations are judged directly.
type CTerm struct {
	K string  `json:"k"`
	X string  `json:"x,omitempty"` // var / str: the name
	S string  `json:"s,omitempty"` // int / date / bytes / bool: canonical text
	E []CTerm `json:"e,omitempty"` // set
}

type CPred struct {
	Name  string  `json:"name"`
	Terms []CTerm `json:"terms"`
}

type COp struct {
	K string `json:"k"` // value unary binary
	T *CTerm `json:"t,omitempty"`
	O string `json:"o,omitempty"`
}

type CRule struct {
	Head  CPred   `json:"head"`
	Body  []CPred `json:"body"`
	Exprs [][]COp `json:"exprs"`
}

type CBlock struct {
	Context string    `json:"context"`
	Facts   []CPred   `json:"facts"`
	Rules   []CRule   `json:"rules"`
	Checks  [][]CRule `json:"checks"`
}

type WireCase struct {
	ID     string   `json:"id"`
	Blocks []CBlock `json:"blocks"`
	Rid    *uint32  `json:"rid"`
	Seal   bool     `json:"seal"`
	Base   []string `json:"base"` // caller-supplied base symbol table (WithSymbols / Unmarshaler{Symbols}); nil = default
}

func (t CTerm) term() biscuit.Term {
	switch t.K {
	case "var":
		return biscuit.Variable(t.X)
	case "str":
		return biscuit.String(t.X)
	case "int":
		i, _ := strconv.ParseInt(t.S, 10, 64)
		return biscuit.Integer(i)
	case "date":
		u, _ := strconv.ParseUint(t.S, 10, 64)
		return biscuit.Date(time.Unix(int64(u), 0))
	case "bytes":
		b, _ := hex.DecodeString(t.S)
		return biscuit.Bytes(b)
	case "bool":
		return biscuit.Bool(t.S == "true")
	case "set":
		s := biscuit.Set{}
		for _, e := range t.E {
			s = append(s, e.term())
		}
		return s
	}
	panic("bad content term " + t.K)
}

func (p CPred) pred() biscuit.Predicate {
	out := biscuit.Predicate{Name: p.Name, IDs: []biscuit.Term{}}
	for _, t := range p.Terms {
		out.IDs = append(out.IDs, t.term())
	}
	return out
}

var unaryByName = map[string]biscuit.UnaryOp{"Negate": biscuit.UnaryNegate, "Parens": biscuit.UnaryParens, "Length": biscuit.UnaryLength}
var binaryByName = map[string]biscuit.BinaryOp{"LessThan": biscuit.BinaryLessThan, "GreaterThan": biscuit.BinaryGreaterThan,
	"LessOrEqual": biscuit.BinaryLessOrEqual, "GreaterOrEqual": biscuit.BinaryGreaterOrEqual, "Equal": biscuit.BinaryEqual,
	"Contains": biscuit.BinaryContains, "Prefix": biscuit.BinaryPrefix, "Suffix": biscuit.BinarySuffix, "Regex": biscuit.BinaryRegex,
	"Add": biscuit.BinaryAdd, "Sub": biscuit.BinarySub, "Mul": biscuit.BinaryMul, "Div": biscuit.BinaryDiv, "And": biscuit.BinaryAnd,
	"Or": biscuit.BinaryOr, "Intersection": biscuit.BinaryIntersection, "Union": biscuit.BinaryUnion}
var binaryNamesW = []string{"LessThan", "GreaterThan", "LessOrEqual", "GreaterOrEqual", "Equal", "Contains", "Prefix", "Suffix", "Regex",
	"Add", "Sub", "Mul", "Div", "And", "Or", "Intersection", "Union"}

func (r CRule) rule() biscuit.Rule {
	out := biscuit.Rule{Head: r.Head.pred(), Body: []biscuit.Predicate{}, Expressions: []biscuit.Expression{}}
	for _, p := range r.Body {
		out.Body = append(out.Body, p.pred())
	}
	for _, ex := range r.Exprs {
		e := biscuit.Expression{}
		for _, op := range ex {
			switch op.K {
			case "value":
				e = append(e, biscuit.Value{Term: op.T.term()})
			case "unary":
				e = append(e, unaryByName[op.O])
			case "binary":
				e = append(e, binaryByName[op.O])
			}
		}
		out.Expressions = append(out.Expressions, e)
	}
	return out
}

// ---- wire -> JSON for TraceWire --------------------------------------------------------------------
type JTerm struct {
	K string  `json:"k"`
	X *uint64 `json:"x,omitempty"`
	S string  `json:"s,omitempty"`
	E []JTerm `json:"e,omitempty"`
}

func jterm(t WTerm) JTerm {
	switch t.Kind {
	case "variable":
		u := t.U
		return JTerm{K: "var", X: &u}
	case "string":
		u := t.U
		if u > 1<<30 {
			u = 1 << 30 // TLC integers are 32 bit; any such index is unresolvable anyway
		}
		return JTerm{K: "str", X: &u}
	case "integer":
		return JTerm{K: "int", S: strconv.FormatInt(t.I, 10)}
	case "date":
		return JTerm{K: "date", S: strconv.FormatUint(t.U, 10)}
	case "bytes":
		return JTerm{K: "bytes", S: hex.EncodeToString(t.B)}
	case "bool":
		return JTerm{K: "bool", S: strconv.FormatBool(t.U != 0)}
	case "set":
		out := JTerm{K: "set", E: []JTerm{}}
		for _, e := range t.Set {
			out.E = append(out.E, jterm(e))
		}
		return out
	}
	return JTerm{K: "?"}
}

type JPred struct {
	Name  uint64  `json:"name"`
	Terms []JTerm `json:"terms"`
}
type JOp struct {
	K string `json:"k"`
	T *JTerm `json:"t,omitempty"`
	C *int   `json:"c,omitempty"`
}
type JRule struct {
	Head  JPred   `json:"head"`
	Body  []JPred `json:"body"`
	Exprs [][]JOp `json:"exprs"`
}
type JBlock struct {
	Symbols []string  `json:"symbols"`
	Context string    `json:"context"`
	Version int       `json:"version"`
	Unknown int       `json:"unknown"`
	Facts   []JPred   `json:"facts"`
	Rules   []JRule   `json:"rules"`
	Checks  [][]JRule `json:"checks"`
}

func jpred(p WPred) JPred {
	out := JPred{Name: p.Name, Terms: []JTerm{}}
	if out.Name > 1<<30 {
		out.Name = 1 << 30
	}
	for _, t := range p.Terms {
		out.Terms = append(out.Terms, jterm(t))
	}
	return out
}

func jrule(r WRule) JRule {
	out := JRule{Head: jpred(r.Head), Body: []JPred{}, Exprs: [][]JOp{}}
	for _, p := range r.Body {
		out.Body = append(out.Body, jpred(p))
	}
	for _, ex := range r.Exprs {
		ops := []JOp{}
		for _, op := range ex {
			switch op.Kind {
			case "value":
				t := jterm(*op.Term)
				ops = append(ops, JOp{K: "value", T: &t})
			default:
				c := int(op.Code)
				if op.Code > 1000 {
					c = 1000
				}
				ops = append(ops, JOp{K: op.Kind, C: &c})
			}
		}
		out.Exprs = append(out.Exprs, ops)
	}
	return out
}

func jblock(b *WBlock) JBlock {
	out := JBlock{Symbols: b.Symbols, Version: -1, Unknown: b.UnknownTop, Facts: []JPred{}, Rules: []JRule{}, Checks: [][]JRule{}}
	if out.Symbols == nil {
		out.Symbols = []string{}
	}
	if b.Context != nil {
		out.Context = *b.Context
	}
	if b.Version != nil {
		out.Version = int(*b.Version)
		if *b.Version > 1<<30 {
			out.Version = 1 << 30
		}
	}
	for _, f := range b.Facts {
		out.Facts = append(out.Facts, jpred(f))
	}
	for _, r := range b.Rules {
		out.Rules = append(out.Rules, jrule(r))
	}
	for _, c := range b.Checks {
		qs := []JRule{}
		for _, q := range c {
			qs = append(qs, jrule(q))
		}
		out.Checks = append(out.Checks, qs)
	}
	return out
}

func snapshot(t *biscuit.Biscuit, pub ed25519.PublicKey) string {
	rid := "none"
	if id := t.RootKeyID(); id != nil {
		rid = fmt.Sprint(*id)
	}
	var rb bytes.Buffer
	for _, r := range t.RevocationIds() {
		rb.Write(r)
	}
	verdict := "?"
	a, err := t.AuthorizerFor(biscuit.WithSingularRootPublicKey(pub), biscuit.WithWorldOptions(datalog.WithMaxDuration(20*time.Second)))
	if err != nil {
		verdict = "verify: " + err.Error()
	} else {
		a.AddPolicy(biscuit.DefaultAllowPolicy)
		verdict = classify(a.Authorize())
	}
	return fmt.Sprintf("%s|%v|rid=%s|rev=%x|ctx=%q|auth=%s|n=%d", t.String(), t.Code(), rid, rb.Bytes(), t.GetContext(), verdict, t.BlockCount())
}

// resign returns the token bytes with block i's version field replaced (field 3 of Block), validly re-signed by a fresh root.
func resignWithVersion(w *WBiscuit, version *uint64) ([]byte, ed25519.PublicKey) {
	pub, priv := fixedKey("resign-root")
	nw := &WBiscuit{RootKeyID: w.RootKeyID}
	var blk []byte
	fields(w.Authority.Block, func(num protowire.Number, typ protowire.Type, v []byte, u uint64) error {
		if num == 3 {
			return nil
		}
		blk = protowire.AppendTag(blk, num, typ)
		if typ == protowire.VarintType {
			blk = protowire.AppendVarint(blk, u)
		} else {
			blk = protowire.AppendBytes(blk, v)
		}
		return nil
	})
	if version != nil {
		blk = protowire.AppendTag(blk, 3, protowire.VarintType)
		blk = protowire.AppendVarint(blk, *version)
	}
	npub, npriv, _ := ed25519.GenerateKey(nil)
	sb := WSigned{Block: blk, Alg: 0, Key: npub}
	sb.Sig = ed25519.Sign(priv, signedPayloadW(sb, nil))
	nw.Authority = sb
	nw.ProofSecret = npriv.Seed()
	return nw.encode(), pub
}

func runWire(c *WireCase) (interface{}, error) {
	pub, priv := fixedKey("wire-root")
	var b biscuit.Builder
	unmarshal := biscuit.Unmarshal
	switch {
	case c.Base != nil:
		base := datalog.SymbolTable(append([]string{}, c.Base...))
		if c.Rid != nil {
			b = biscuit.NewBuilder(priv, biscuit.WithSymbols(&base), biscuit.WithRootKeyID(*c.Rid))
		} else {
			b = biscuit.NewBuilder(priv, biscuit.WithSymbols(&base))
		}
		// ONE Unmarshaler value serves every reload of this case (and an unrelated token, below): its table is the caller's
		ut := datalog.SymbolTable(append([]string{}, c.Base...))
		um := &biscuit.Unmarshaler{Symbols: &ut}
		unmarshal = func(ser []byte) (*biscuit.Biscuit, error) { return um.Unmarshal(ser) }
	case c.Rid != nil:
		b = biscuit.NewBuilder(priv, biscuit.WithRootKeyID(*c.Rid))
	default:
		b = biscuit.NewBuilder(priv)
	}
	for _, f := range c.Blocks[0].Facts {
		if err := b.AddAuthorityFact(biscuit.Fact{Predicate: f.pred()}); err != nil {
			return map[string]interface{}{"harness": "authority fact: " + err.Error()}, nil
		}
	}
	for _, r := range c.Blocks[0].Rules {
		b.AddAuthorityRule(r.rule())
	}
	for _, ch := range c.Blocks[0].Checks {
		k := biscuit.Check{}
		for _, q := range ch {
			k.Queries = append(k.Queries, q.rule())
		}
		b.AddAuthorityCheck(k)
	}
	b.SetContext(c.Blocks[0].Context)
	tok, err := b.Build()
	if err != nil {
		return map[string]interface{}{"harness": "build: " + err.Error()}, nil
	}
	for i, blk := range c.Blocks[1:] {
		if i%2 == 1 { // a token that travelled as bytes is attenuated further
			ser, _ := tok.Serialize()
			tok, err = unmarshal(ser)
			if err != nil {
				return map[string]interface{}{"harness": "intermediate reload: " + err.Error()}, nil
			}
		}
		bb := tok.CreateBlock()
		for _, f := range blk.Facts {
			if err := bb.AddFact(biscuit.Fact{Predicate: f.pred()}); err != nil {
				return map[string]interface{}{"harness": "block fact: " + err.Error()}, nil
			}
		}
		for _, r := range blk.Rules {
			bb.AddRule(r.rule())
		}
		for _, ch := range blk.Checks {
			k := biscuit.Check{}
			for _, q := range ch {
				k.Queries = append(k.Queries, q.rule())
			}
			bb.AddCheck(k)
		}
		bb.SetContext(blk.Context)
		tok, err = tok.Append(nil2rand(), bb.Build())
		if err != nil {
			return map[string]interface{}{"harness": "append: " + err.Error()}, nil
		}
	}
	sealChanged := false
	if c.Seal {
		open := snapshot(tok, pub)
		tok, err = tok.Seal(nil2rand())
		if err != nil {
			return map[string]interface{}{"harness": "seal: " + err.Error()}, nil
		}
		// C09: the sealed token prints, identifies and authorizes exactly like the token it was made from
		sealChanged = snapshot(tok, pub) != open
	}
	ser, err := tok.Serialize()
	if err != nil {
		return map[string]interface{}{"harness": "serialize: " + err.Error()}, nil
	}
	wb, err := decodeBiscuit(ser)
	if err != nil {
		return map[string]interface{}{"wire_error": "independent decoder rejects the envelope: " + err.Error()}, nil
	}
	jw := []JBlock{}
	for _, sb := range wb.all() {
		blk, err := decodeBlock(sb.Block)
		if err != nil {
			return map[string]interface{}{"wire_error": "independent decoder rejects a block: " + err.Error()}, nil
		}
		jw = append(jw, jblock(blk))
	}
	out := map[string]interface{}{"wire": map[string]interface{}{"blocks": jw}}
	rt := []string{}
	if sealChanged {
		rt = append(rt, "sealing changed the content / revocation ids / root key id / authorization of the token (in memory)")
	}
	// round trip
	before := snapshot(tok, pub)
	re, err := unmarshal(ser)
	if err != nil {
		rt = append(rt, "Unmarshal(Serialize()) fails: "+err.Error())
	} else {
		// accessors of the reloaded token, judged by TraceWire against the caller's content
		lookups := []map[string]interface{}{}
		for _, blk := range c.Blocks {
			for _, f := range blk.Facts {
				got, err := re.GetBlockID(biscuit.Fact{Predicate: f.pred()})
				if err != nil {
					got = -1
				}
				lookups = append(lookups, map[string]interface{}{"fact": f, "got": got})
			}
		}
		absent := CPred{Name: "surely_absent_fact", Terms: []CTerm{{K: "int", S: "12345"}}}
		g, err := re.GetBlockID(biscuit.Fact{Predicate: absent.pred()})
		if err != nil {
			g = -1
		}
		lookups = append(lookups, map[string]interface{}{"fact": absent, "got": g})
		out["lookups"] = lookups
		out["context"] = re.GetContext()
		nc := []int{}
		for _, cs := range re.Checks() {
			nc = append(nc, len(cs))
		}
		out["nchecks"] = nc
		if after := snapshot(re, pub); after != before {
			rt = append(rt, "content / revocation ids / root key id / authorization differ after Unmarshal")
		}
		if c.Base != nil {
			// an unrelated token over the same base table goes through the SAME Unmarshaler: the token reloaded before stays as it was
			s0 := snapshot(re, pub)
			ob2 := datalog.SymbolTable(append([]string{}, c.Base...))
			ob := biscuit.NewBuilder(priv, biscuit.WithSymbols(&ob2))
			ob.AddAuthorityFact(biscuit.Fact{Predicate: biscuit.Predicate{Name: "unrelated_other_token", IDs: []biscuit.Term{biscuit.String("other_fresh_symbol")}}})
			if ot, e := ob.Build(); e == nil {
				if oser, e := ot.Serialize(); e == nil {
					_, _ = unmarshal(oser)
				}
			}
			if snapshot(re, pub) != s0 {
				rt = append(rt, "a reloaded token changed when ANOTHER token was unmarshalled through the same Unmarshaler")
			}
		}
		ser2, err := re.Serialize()
		if err != nil || !bytes.Equal(ser, ser2) {
			rt = append(rt, "Unmarshal(bytes).Serialize() does not reproduce the bytes")
		}
		wrid, trid := wb.RootKeyID, re.RootKeyID()
		if (wrid == nil) != (trid == nil) || (wrid != nil && *wrid != *trid) || (c.Rid == nil) != (wrid == nil) || (c.Rid != nil && *c.Rid != *wrid) {
			rt = append(rt, "root key id on the wire / after reload differs from the one supplied")
		}
	}
	// version gate: the authority block re-signed (by another root) with an unsupported version must be rejected
	// (a block WITHOUT a version field declares nothing: whether it is refused is not part of the property)
	vs := []*uint64{}
	for _, v := range []uint64{0, 1, 2, 4, math.MaxUint32} {
		vv := v
		vs = append(vs, &vv)
	}
	for _, v := range vs {
		bytesV, rpub := resignWithVersion(wb, v)
		t2, err := biscuit.Unmarshal(bytesV)
		if err == nil {
			_, err = t2.AuthorizerFor(biscuit.WithSingularRootPublicKey(rpub))
		}
		if err == nil {
			if v == nil {
				rt = append(rt, "a block without schema version is accepted")
			} else {
				rt = append(rt, fmt.Sprintf("a block declaring schema version %d is accepted", *v))
			}
		}
	}
	three := uint64(3)
	okBytes, rpub := resignWithVersion(wb, &three)
	if t3, err := biscuit.Unmarshal(okBytes); err != nil {
		rt = append(rt, "harness self-check: re-signed version 3 block rejected: "+err.Error())
	} else if _, err := t3.AuthorizerFor(biscuit.WithSingularRootPublicKey(rpub)); err != nil {
		rt = append(rt, "harness self-check: re-signed version 3 block does not verify: "+err.Error())
	}
	out["roundtrip"] = rt
	return out, nil
}

func init() {
	families["wire"] = func(raw json.RawMessage) (interface{}, error) {
		var c WireCase
		if err := json.Unmarshal(raw, &c); err != nil {
			return nil, err
		}
		return runWire(&c)
	}
	generators["wire"] = genWire
}
