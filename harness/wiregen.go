package main

import (
	"fmt"
	"math"
	"strconv"
)

// generator of caller-level block contents for the wire family: every term type, nested expressions, sets,
// default and fresh symbols, symbols shared across blocks, 1..4 blocks.
func genWire(tier string, seed int64, out func(interface{})) {
	n := 800
	if tier == "thorough" {
		n = 12000
	}
	r := newRand(seed)
	names := []string{"read", "resource", "owner", "query", "file1", "alpha", "beta_2", "x:y", "", "héllo", "long_name_0123456789", "write"}
	preds := []string{"right", "resource", "operation", "p", "q", "custom_pred", "time", "member"}
	vars := []string{"x", "y", "resource", "0", "var_1"}
	var term func(allowVar, allowSet bool) CTerm
	term = func(allowVar, allowSet bool) CTerm {
		k := r.Intn(9)
		switch {
		case k == 0 && allowVar:
			return CTerm{K: "var", X: vars[r.Intn(len(vars))]}
		case k <= 2:
			return CTerm{K: "str", X: names[r.Intn(len(names))]}
		case k == 3:
			vals := []int64{0, 1, -1, 42, math.MaxInt64, math.MinInt64, 1 << 40, -(1 << 33)}
			return CTerm{K: "int", S: strconv.FormatInt(vals[r.Intn(len(vals))], 10)}
		case k == 4:
			vals := []uint64{0, 1, 1700000000, 1 << 40}
			return CTerm{K: "date", S: strconv.FormatUint(vals[r.Intn(len(vals))], 10)}
		case k == 5:
			vals := []string{"", "00", "0aff", "deadbeef00"}
			return CTerm{K: "bytes", S: vals[r.Intn(len(vals))]}
		case k == 6:
			return CTerm{K: "bool", S: []string{"true", "false"}[r.Intn(2)]}
		case k == 7 && allowSet:
			// homogeneous, duplicate-free, non-empty
			kind := r.Intn(4)
			m := 1 + r.Intn(3)
			s := CTerm{K: "set", E: []CTerm{}}
			for i := 0; i < m; i++ {
				switch kind {
				case 0:
					s.E = append(s.E, CTerm{K: "int", S: strconv.Itoa(i * 7)})
				case 1:
					s.E = append(s.E, CTerm{K: "str", X: names[(i*3+r.Intn(2))%len(names)]})
				case 2:
					s.E = append(s.E, CTerm{K: "bytes", S: fmt.Sprintf("%02x", i)})
				default:
					s.E = append(s.E, CTerm{K: "date", S: strconv.Itoa(1000 + i)})
				}
			}
			// de-duplicate strings
			seen := map[string]bool{}
			e2 := []CTerm{}
			for _, e := range s.E {
				key := e.K + e.X + e.S
				if !seen[key] {
					seen[key] = true
					e2 = append(e2, e)
				}
			}
			s.E = e2
			return s
		}
		return CTerm{K: "int", S: strconv.Itoa(r.Intn(100))}
	}
	pred := func(allowVar bool) CPred {
		p := CPred{Name: preds[r.Intn(len(preds))], Terms: []CTerm{}}
		for i, m := 0, r.Intn(4); i < m; i++ {
			p.Terms = append(p.Terms, term(allowVar, true))
		}
		return p
	}
	unary := []string{"Negate", "Parens", "Length"}
	var expr func(d int, ops *[]COp)
	expr = func(d int, ops *[]COp) {
		if d == 0 || r.Intn(3) == 0 {
			t := term(true, true)
			*ops = append(*ops, COp{K: "value", T: &t})
			return
		}
		if r.Intn(4) == 0 {
			expr(d-1, ops)
			*ops = append(*ops, COp{K: "unary", O: unary[r.Intn(3)]})
			return
		}
		expr(d-1, ops)
		expr(d-1, ops)
		*ops = append(*ops, COp{K: "binary", O: binaryNamesW[r.Intn(len(binaryNamesW))]})
	}
	rule := func() CRule {
		rl := CRule{Head: pred(true), Body: []CPred{}, Exprs: [][]COp{}}
		for i, m := 0, r.Intn(3); i < m; i++ {
			rl.Body = append(rl.Body, pred(true))
		}
		for i, m := 0, r.Intn(3); i < m; i++ {
			ops := []COp{}
			expr(1+r.Intn(3), &ops)
			rl.Exprs = append(rl.Exprs, ops)
		}
		return rl
	}
	for i := 0; i < n; i++ {
		c := WireCase{ID: fmt.Sprintf("w%d", i), Blocks: []CBlock{}, Seal: r.Intn(5) == 0}
		switch r.Intn(5) {
		case 0:
			v := uint32(0)
			c.Rid = &v
		case 1:
			v := uint32(math.MaxUint32)
			c.Rid = &v
		case 2:
			v := uint32(r.Intn(1000))
			c.Rid = &v
		}
		if r.Intn(4) == 0 { // a caller-supplied base table, sharing names with the content
			c.Base = [][]string{{"file1", "alpha"}, {"custom_pred", "x:y", "beta_2", "p"}, {}, {"long_name_0123456789"}}[r.Intn(4)]
		}
		nb := 1 + r.Intn(4)
		for b := 0; b < nb; b++ {
			blk := CBlock{Context: []string{"", "ctx", "a context with spaces"}[r.Intn(3)], Facts: []CPred{}, Rules: []CRule{}, Checks: [][]CRule{}}
			seen := map[string]bool{}
			for k, m := 0, r.Intn(4); k < m; k++ {
				f := pred(false)
				key := fmt.Sprint(f)
				if !seen[key] {
					seen[key] = true
					blk.Facts = append(blk.Facts, f)
				}
			}
			for k, m := 0, r.Intn(3); k < m; k++ {
				blk.Rules = append(blk.Rules, rule())
			}
			for k, m := 0, r.Intn(3); k < m; k++ {
				qs := []CRule{}
				for q, mq := 0, 1+r.Intn(2); q < mq; q++ {
					qr := rule()
					qr.Head = CPred{Name: "query", Terms: []CTerm{}}
					qs = append(qs, qr)
				}
				blk.Checks = append(blk.Checks, qs)
			}
			c.Blocks = append(c.Blocks, blk)
		}
		out(c)
	}
}
