"""Shared machinery for the /verif checks: TLC runs, Go driver runs, evidence, findings."""
import hashlib, json, os, re, shutil, subprocess, sys, tempfile, threading, time, queue

ROOT = os.path.dirname(os.path.dirname(os.path.abspath(__file__)))
SPEC = os.path.join(ROOT, "spec")
HARNESS = os.path.join(ROOT, "harness")
EVID = os.path.join(ROOT, "evidence")
REPLAYS = os.path.join(ROOT, "replays")
FINDINGS = os.path.join(ROOT, "known_findings.json")
REPO = os.environ.get("VERIF_REPO", "/repo")
NCPU = os.cpu_count() or 4
TLA_CP = "/opt/veriftools/tla/tla2tools.jar:/opt/veriftools/tla/CommunityModules-deps.jar"

GOENV = dict(os.environ, GOFLAGS="-mod=mod", GOPROXY="off", GOSUMDB="off", GOTOOLCHAIN="local",
             CGO_ENABLED=os.environ.get("CGO_ENABLED", "1"))


class Infra(Exception):
    """Infrastructure failure: exit 2, never a violation."""


_T0 = time.time()


def log(*a):
    print("[%6.1fs]" % (time.time() - _T0), *a, file=sys.stderr, flush=True)


class Work:
    def __init__(self, pid_tag):
        base = os.path.join(ROOT, ".work")
        os.makedirs(base, exist_ok=True)
        self.dir = tempfile.mkdtemp(prefix=pid_tag + ".", dir=base)

    def path(self, *p):
        return os.path.join(self.dir, *p)

    def cleanup(self):
        shutil.rmtree(self.dir, ignore_errors=True)


# ---------------------------------------------------------------- Go driver

def _sync_gosum():
    src = os.path.join(REPO, "go.sum")
    dst = os.path.join(HARNESS, "go.sum")
    try:
        a = open(src, "rb").read()
        b = open(dst, "rb").read() if os.path.exists(dst) else b""
        if not b.startswith(a) and a not in b:
            open(dst, "wb").write(a + (b"" if not b else b))
    except OSError:
        pass


_build_lock = threading.Lock()


def build_driver(work, race=False):
    """Build the conformance driver against /repo's current working tree (tag verif)."""
    out = work.path("driver-race" if race else "driver")
    if os.path.exists(out):
        return out
    with _build_lock:
        _sync_gosum()
        cmd = ["go", "build", "-tags", "verif", "-o", out]
        if race:
            cmd.insert(2, "-race")
        cmd.append(".")
        t0 = time.time()
        hdir = HARNESS
        if os.path.realpath(REPO) != "/repo":
            # VERIF_REPO (used by lib/seedtool.py to check a scratch worktree carrying a seeded change while /repo itself is
            # in use): build a copy of the harness whose replace directive points there
            hdir = work.path("harness-src")
            shutil.rmtree(hdir, ignore_errors=True)
            shutil.copytree(HARNESS, hdir)
            gm = open(os.path.join(hdir, "go.mod")).read().replace("=> /repo", "=> " + os.path.realpath(REPO))
            open(os.path.join(hdir, "go.mod"), "w").write(gm)
        p = subprocess.run(cmd, cwd=hdir, env=GOENV, capture_output=True, text=True)
        if p.returncode != 0:
            raise Infra("driver build failed (does /repo compile?):\n" + p.stdout + p.stderr)
        log("[build] driver%s built in %.1fs" % (" (race)" if race else "", time.time() - t0))
    return out


def _worker(driver, family, cases, results, env, per_case_timeout, args, scratch, wid):
    """Run cases through one driver process (files in, files out); on death attribute it to the case in flight
    and restart after it."""
    i = 0
    rnd = 0
    while i < len(cases):
        batch = cases[i:]
        rnd += 1
        fin = os.path.join(scratch, "in.%s.%d.%d" % (family, wid, rnd))
        fout = os.path.join(scratch, "out.%s.%d.%d" % (family, wid, rnd))
        with open(fin, "w") as f:
            for c in batch:
                f.write(json.dumps(c, separators=(",", ":")) + "\n")
        open(fout, "w").close()
        p = subprocess.Popen([driver, "run", family, "-i", fin, "-o", fout] + list(args), stdout=subprocess.DEVNULL,
                             stderr=subprocess.PIPE, env=env, text=True)
        errbuf = []
        te = threading.Thread(target=lambda: errbuf.append(p.stderr.read()), daemon=True)
        te.start()
        last_size, last_t = -1, time.time()
        while True:
            try:
                p.wait(timeout=0.5)
                break
            except subprocess.TimeoutExpired:
                sz = os.path.getsize(fout)
                if sz != last_size:
                    last_size, last_t = sz, time.time()
                elif time.time() - last_t > per_case_timeout:
                    p.kill()
        rc = p.returncode
        te.join(timeout=5)
        inflight = None
        done_here = 0
        with open(fout) as f:
            for line in f:
                if line.startswith("S "):
                    inflight = line[2:].rstrip("\n")
                elif line.startswith("R ") and line.endswith("\n"):
                    sp = line.find(" ", 2)
                    cid = line[2:sp]
                    try:
                        results[cid] = json.loads(line[sp + 1:])
                    except ValueError:
                        results[cid] = {"crash": True, "stderr": "unparsable result: " + line[:300]}
                    if isinstance(results[cid], dict):
                        # where the case ran: worker, position in the worker's chunk, number of cases the SAME process ran before it
                        results[cid].update(_wid=wid, _pos=i + done_here, _pre=done_here)
                    inflight = None
                    done_here += 1
        os.unlink(fin)
        os.unlink(fout)
        if done_here >= len(batch):
            return
        stderr = (errbuf[0] if errbuf else "")
        if len(stderr) > 6000:
            stderr = stderr[:3000] + "\n...\n" + stderr[-3000:]
        cid = inflight if inflight is not None else str(batch[done_here].get("id"))
        k = next((j for j, c in enumerate(batch) if str(c.get("id")) == cid), done_here)
        results[cid] = {"crash": True, "rc": rc, "stderr": stderr, "timeout": rc == -9,
                        "prev": [str(c.get("id")) for c in batch[max(0, k - 40):k]]}
        i += done_here + 1


_last_runs = {}   # family -> the case list and process count of the last multi-case run (to rebuild what a process ran before a case)


def predecessors(family, o, n):
    """the (at most n) cases that the same driver process executed before the case whose observation is o"""
    ctx = _last_runs.get(family)
    if not ctx or not isinstance(o, dict) or "_pos" not in o:
        return []
    chunk = ctx["cases"][o["_wid"]::ctx["np"]]
    n = min(n, o["_pre"])
    return chunk[o["_pos"] - n:o["_pos"]]


def run_driver(driver, family, cases, nproc=None, env=None, per_case_timeout=120, args=(), record=True):
    """Run cases (dicts with 'id') through 'driver run <family>' on several processes.
    Returns {id: result}. A process death is attributed to the case in flight ({'crash': True})."""
    if not cases:
        return {}
    nproc = min(nproc or NCPU, len(cases))
    e = dict(GOENV)
    e.update(env or {})
    for c in cases:
        c["id"] = str(c["id"])
    chunks = [cases[k::nproc] for k in range(nproc)]
    if len(cases) > 1 and record:
        _last_runs[family] = {"cases": cases, "np": nproc}
    results = {}
    scratch = tempfile.mkdtemp(prefix="drv.", dir=os.path.dirname(driver))
    ths = [threading.Thread(target=_worker, args=(driver, family, ch, results, e, per_case_timeout, args, scratch, w))
           for w, ch in enumerate(chunks)]
    for t in ths:
        t.start()
    for t in ths:
        t.join()
    shutil.rmtree(scratch, ignore_errors=True)
    log("[driver] %s: %d cases on %d processes" % (family, len(cases), nproc))
    slow = [cid for cid, r in results.items() if isinstance(r, dict) and r.get("crash") and r.get("timeout")]
    if slow:
        # a case killed by the per-case watchdog is slowness or a hang we cannot tell apart: never a verdict
        raise Infra("%d %s case(s) exceeded the per-case timeout of %ds (first: %s)" % (len(slow), family, per_case_timeout, slow[0]))
    missing = [c["id"] for c in cases if c["id"] not in results]
    if missing:
        raise Infra("driver lost %d cases (first %s)" % (len(missing), missing[0]))
    return results


# ---------------------------------------------------------------- TLC

class TlcResult:
    def __init__(self):
        self.out = ""
        self.generated = 0
        self.distinct = 0
        self.ok = False
        self.violated = None   # name of violated invariant/property
        self.cases = []        # exported JSON cases
        self.printed = []      # other PrintT tuples (raw strings)
        self.wall = 0.0
        self.rc = None


_case_re = re.compile(r'^<<"(CASE|BAD|INFO)", (".*")>>$')


def _unq(s):
    # TLA+ string literal -> python str (escapes are \" and \\ plus \n \t)
    return json.loads(s)


def tlc(work, module, cfg, workers=None, env=None, timeout=900, simulate=None, depth=None, seed=None,
        extra=(), expect_violation=False, tag=None, deadlock=False):
    """Run TLC on spec/<module>.tla with spec/cfg/<cfg>.cfg inside a private scratch dir."""
    tag = tag or cfg
    d = work.path("tlc." + tag)
    os.makedirs(d, exist_ok=True)
    for f in os.listdir(SPEC):
        if f.endswith(".tla"):
            shutil.copy(os.path.join(SPEC, f), d)
    shutil.copy(os.path.join(SPEC, "cfg", cfg + ".cfg"), os.path.join(d, cfg + ".cfg"))
    nw = workers or NCPU
    jvm = ["-XX:+UseSerialGC", "-Xmx3g"] if nw <= 2 else ["-XX:+UseParallelGC", "-XX:ParallelGCThreads=%d" % min(nw, 8), "-Xmx12g"]
    cmd = ["java"] + jvm + ["-Xss256m", "-Djava.io.tmpdir=" + d, "-cp", TLA_CP, "tlc2.TLC",
           "-workers", str(nw), "-metadir", os.path.join(d, "md"), "-config", cfg + ".cfg", "-noGenerateSpecTE"]
    if not deadlock:
        cmd.append("-deadlock")
    if simulate is not None:
        cmd += ["-simulate", "num=%d" % simulate]
        if depth:
            cmd += ["-depth", str(depth)]
    if seed is not None:
        cmd += ["-seed", str(seed)]
    cmd += list(extra) + [module + ".tla"]
    e = dict(os.environ)
    e.pop("JAVA_TOOL_OPTIONS", None)
    e.update(env or {})
    r = TlcResult()
    t0 = time.time()
    try:
        p = subprocess.run(["timeout", "-k", "5", str(timeout)] + cmd, cwd=d, env=e, capture_output=True, text=True)
    finally:
        subprocess.run(["pkill", "-f", "metadir " + re.escape(os.path.join(d, "md"))], capture_output=True)
    r.wall = time.time() - t0
    r.rc = p.returncode
    r.out = p.stdout + p.stderr
    for line in p.stdout.splitlines():
        m = _case_re.match(line)
        if m:
            try:
                payload = _unq(m.group(2))
                if m.group(1) == "CASE":
                    r.cases.append(json.loads(payload))
                else:
                    r.printed.append((m.group(1), payload))
            except ValueError:
                r.printed.append(("RAW", line))
            continue
        m = re.search(r"(\d+) states generated, (\d+) distinct states found", line)
        if m:
            r.generated, r.distinct = int(m.group(1)), int(m.group(2))
        m = re.search(r"Invariant (\S+) is violated", line) or re.search(r"property (\S+) is violated", line) \
            or re.search(r"Temporal properties were violated", line) or re.search(r"(Deadlock) reached", line)
        if m and r.violated is None:
            r.violated = m.group(1) if m.groups() else "temporal"
        if "Model checking completed. No error has been found" in line or \
                re.search(r"The number of states generated: (\d+)", line):
            r.ok = True
            m2 = re.search(r"The number of states generated: (\d+)", line)
            if m2:  # simulation mode
                r.generated = int(m2.group(1))
                r.distinct = r.distinct or r.generated
    if p.returncode == 124:
        if simulate is not None:
            r.ok = True  # simulation runs are time-boxed
        else:
            raise Infra("TLC timeout after %ds on %s/%s" % (timeout, module, cfg))
    if simulate is not None and r.violated is None and p.returncode in (0, 124):
        r.ok = True
        if not r.generated:
            r.generated = r.distinct = len(r.cases) or 1
    if r.violated and not expect_violation:
        raise Infra("TLC reports %s violated on model %s/%s (model-only counterexample; not a code verdict)\n%s"
                    % (r.violated, module, cfg, r.out[-3000:]))
    if not r.ok and not r.violated:
        raise Infra("TLC failed on %s/%s rc=%s\n%s" % (module, cfg, p.returncode, r.out[-4000:]))
    log("[tlc] %s/%s: %d generated, %d distinct, %d cases, %.1fs%s" % (
        module, cfg, r.generated, r.distinct, len(r.cases), r.wall,
        " VIOLATED " + str(r.violated) if r.violated else ""))
    return r


# ---------------------------------------------------------------- known findings

def load_findings():
    if not os.path.exists(FINDINGS):
        return []
    return json.load(open(FINDINGS)).get("findings", [])


def match_finding(prop, sig):
    """sig: dict describing the failing case; a finding matches when every key of its 'match' equals sig's."""
    for f in load_findings():
        if f.get("property") != prop or f.get("status") != "known":
            continue
        m = f.get("match", {})
        if m and all(str(sig.get(k)) == str(v) for k, v in m.items()):
            return f
    return None


# ---------------------------------------------------------------- a check run

class Run:
    def __init__(self, prop, tier, level):
        self.prop, self.tier, self.level = prop, tier, level
        self.seed = int(os.environ.get("VERIF_SEED", "1") or 1)
        self.t0 = time.time()
        self.work = Work(prop)
        self.states = 0
        self.transitions = 0
        self.traces = 0
        self.evaluations = 0
        self.nontrivial = set()
        self.samples = []
        self.violations = []   # (sig, replay_path, text)
        self.known = []
        self.notes = []
        self.assumptions = []
        self.extra = {}
        self.exhaustive = None
        self.rule = ""
        self.tlc_runs = []
        self.unreproduced = []

    # --- bookkeeping
    def add_tlc(self, r, what):
        self.states += r.distinct
        self.transitions += r.generated
        self.tlc_runs.append({"what": what, "distinct": r.distinct, "generated": r.generated, "wall_s": round(r.wall, 1),
                              "exported_cases": len(r.cases)})

    def sample(self, s, cap=6):
        if len(self.samples) < cap:
            self.samples.append(s)

    def count(self, key=None, n=1):
        self.evaluations += n
        if key is not None:
            self.nontrivial.add(key if isinstance(key, (str, int, tuple)) else json.dumps(key, sort_keys=True))

    # --- violations
    def report(self, sig, case, family, text, confirm=None):
        """A discrepancy between the real code and the specification's prediction.
        sig: small dict identifying it (for known-finding matching); case: replayable driver case."""
        if confirm is not None and not confirm():
            self.unreproduced.append(text)
            log("  unreproduced discrepancy (not a verdict): " + text[:400])
            return
        f = match_finding(self.prop, sig)
        if f:
            key = f.get("id") or json.dumps(f.get("match"), sort_keys=True)
            if key not in [k for k, _ in self.known]:
                self.known.append((key, f.get("what", text)))
            return
        if len(self.violations) >= 20:
            return
        os.makedirs(os.path.join(REPLAYS, self.prop), exist_ok=True)
        body = {"property": self.prop, "family": family, "case": case, "sig": sig, "text": text, "seed": self.seed}
        h = hashlib.sha1(json.dumps(body, sort_keys=True).encode()).hexdigest()[:12]
        path = os.path.join(REPLAYS, self.prop, h + ".json")
        json.dump(body, open(path, "w"), indent=1)
        self.violations.append((sig, path, text))

    def finish(self):
        cov = {
            "states": self.states, "transitions": self.transitions,
            "traces_validated_against_impl": self.traces,
            "evaluations": self.evaluations, "distinct_nontrivial": len(self.nontrivial),
            "rule": self.rule, "samples": self.samples or ["(none)"],
            "tlc_runs": self.tlc_runs,
        }
        if self.exhaustive is not None:
            cov["exhaustive"] = self.exhaustive
        cov.update(self.extra)
        ev = {"property_id": self.prop, "tier": self.tier, "seed": self.seed, "level": self.level, "coverage": cov,
              "assumptions": self.assumptions, "wall_s": round(time.time() - self.t0, 2),
              "violations": len(self.violations), "known_findings": [k for k, _ in self.known], "notes": self.notes}
        # evidence/ only ever describes runs against /repo itself; runs pointed at a scratch tree (VERIF_REPO) write elsewhere
        # (a --replay of one recorded case is not a tier of the check either)
        scratch = os.path.realpath(REPO) != "/repo" or getattr(self, "replaying", None) or self.prop == "selftest"
        evdir = os.path.join(ROOT, ".work", "evidence-scratch") if scratch else EVID
        if evdir != EVID:
            ev["repo"] = os.path.realpath(REPO)
        os.makedirs(evdir, exist_ok=True)
        json.dump(ev, open(os.path.join(evdir, self.prop + ".json"), "w"), indent=1)
        for k, what in self.known:
            print("KNOWN-FINDING: property=%s %s" % (self.prop, what))
        for sig, path, text in self.violations:
            log("  violation: " + text[:600])
            print("VIOLATION property=%s replay=%s" % (self.prop, path))
        print("%s %s: %s (states=%d transitions=%d traces=%d evaluations=%d distinct_nontrivial=%d, %.1fs)" % (
            self.prop, self.tier, "VIOLATED" if self.violations else "ok", self.states, self.transitions, self.traces,
            self.evaluations, len(self.nontrivial), time.time() - self.t0), flush=True)
        self.work.cleanup()
        if not self.violations and self.unreproduced:
            print("INFRA-FAILURE %s: %d discrepancies did not reproduce in a fresh process (no verdict)" % (
                self.prop, len(self.unreproduced)), file=sys.stderr)
            return 2
        return 1 if self.violations else 0
