#!/usr/bin/env python3
"""Regenerates /verif/MANIFEST.json from the table below (run after adding a check)."""
import json, os, sys
sys.path.insert(0, os.path.dirname(os.path.abspath(__file__)))
ROOT = os.path.dirname(os.path.dirname(os.path.abspath(__file__)))

ALL = ["C%02d" % i for i in range(1, 21)]

CLAIMED = {
    "C06": dict(
        category="model_checking",
        text="Expr.tla/BigInt.tla specify the stack machine, the operator table and exact 64-bit arithmetic (limb arithmetic, "
             "laws model-checked over all pairs of a boundary pool). TLC proves totality by enumerating every operator sequence "
             "up to length 3/4; each is replayed on the real Evaluate (L2), and ~74k (quick) / ~220k (thorough) recorded "
             "evaluations over 64-bit boundary operands and every operator x type pair are validated by TLC against Expr!Eval (L3).",
        design="6/C06", technique="TLA+ spec (Expr, BigInt) + TLC totality check + TLC trace validation of recorded evaluations",
        note="Trusted: TLC, the harness value codec (int64 <-> base-2^13 limbs). Regex only for anchored literals; UTF-8 not interpreted."),
    "C05": dict(
        category="model_checking",
        text="DatalogEngine.tla transcribes the join odometer (combine/advanceIndexes) step by step and TLC checks it against the "
             "declarative Datalog!Matches for every catalogue body over every duplicate-free fact list (order matters to the code); "
             "DatalogRun.tla models World.Run and is checked against Datalog!Lfp. Every enumerated instance plus seeded random "
             "programs are executed on the real engine (all term types via embeddings) and each observation is validated by TLC "
             "against the declarative semantics (TraceDatalog).",
        design="6/C05", technique="TLA+ operational model of the join odometer vs declarative least fixpoint, TLC; spec->code replay and TLC trace validation",
        note="Trusted: TLC, the harness embedding (injective constant map and its inverse). Bounds: bodies<=2(3) atoms, fact lists<=3(4), "
             "programs from a 13-rule catalogue; random programs arity<=3, <=4 rules."),
}

AUTHZ_NOTE = ("Trusted: TLC; the harness embedding of model constants/predicates into concrete terms and symbol names; error-class "
              "mapping via errors.Is on the exported sentinels. Bounds: catalogues of 3-5 facts, 2-5 rules, 2-5 checks, 3-5 policies per scope, "
              "<=2 later blocks, policy lists <=2; every combination (quick 31k-90k instances) / 700k+ (thorough).")
for _p, _t, _tech in [
    ("C02", "Authz.tla transcribes Authorize step by step (Proc) next to the declarative decision procedure; TLC proves Monotone "
            "(Verdict(T+B)=ok => Verdict(T)=ok) for every instance and refutes it in the negative model (policies after blocks on a shared "
            "world). Every instance is replayed: T, T+B1, T+B1+B2 are built with the real builders and authorized; each verdict must be the "
            "specification's and the chain must be monotone; unrelated authorizer facts vary the slice capacity behind World.Clone; "
            "run-limit configurations (AuthzMC_lim) with a retry of Authorize after a limit error; seeded random first-order programs "
            "validated by TLC (TraceAuthz: RefVerdict, Closure, Monotone).",
     "TLA+ step model of Authorize + TLC theorem Monotone over all catalogue instances; spec->code replay of every instance"),
    ("C03", "TLC proves Scoped / Visible / SameWorld / OrderFree for every two-later-block instance (and refutes Scoped without the private "
            "world copy). Replay authorizes the token, the token with each block reduced to its checks, and the token with blocks swapped, "
            "and runs a panel of authorizer queries: verdicts, authority-level facts and query results must be identical and equal the model; "
            "random first-order programs continue after Authorize with a query and a second Authorize that must agree with the first evaluation.",
     "TLA+ step model + TLC theorems Scoped/Visible/OrderFree; spec->code replay with stripped and swapped variants"),
    ("C04", "TLC proves that the step procedure computes the declarative RefVerdict (all checks in scope, first matching policy, check "
            "failure precedence) on every instance and refutes it when authority rules stay active in block scope. Each instance's verdict "
            "class on the real library (token in memory or through Serialize/Unmarshal, symbols re-interned) must be RefVerdict.",
     "TLA+ declarative decision procedure vs step model (TLC), spec->code replay of every instance"),
    ("C12", "Order independence is a theorem of the model by construction (sets) and of the operational join model (all fact-list orders, "
            "C05). Replay presents every instance shuffled (facts, rules, checks, queries), with duplicated facts, renamed variables and "
            "Authorize called twice, and evaluates catalogue and random Datalog programs in several fact/rule orders: all must give the "
            "single specification outcome and derived fact set (TLC trace validation). State kept inside the process by earlier cases is caught by "
            "replaying a discrepant case after the cases the same driver process ran before it.",
     "TLA+ model (set semantics) + TLC; spec->code replay of permuted presentations; TLC trace validation of permuted programs"),
]:
    CLAIMED[_p] = dict(category="model_checking", text=_t, design="6/" + _p, technique=_tech, note=AUTHZ_NOTE)
CLAIMED["C13"] = dict(category="model_checking",
    text="Lifecycle.tla models the authorizer object (New/Add/Authorize/Query/Reset with base world); TLC checks ResetClean on every "
         "history of 2-3 rounds and refutes it for the pinned tree's mechanism (base overwritten after Authorize). Every history is replayed "
         "on one reused authorizer and each round's verdict and query results must be those of a fresh authorizer (the model's values); rounds "
         "include aborted evaluations, Reset without evaluation, content arriving through LoadPolicies, and authorizers created with run limits "
         "(the limits are part of the state Reset must restore; negative model: Reset falls back to the default limits).",
    design="6/C13", technique="TLA+ lifecycle state machine + TLC invariant ResetClean; spec->code replay of all round histories",
    note=AUTHZ_NOTE)
CLAIMED["C11"] = dict(category="model_checking",
    text="GoRoutines.tla models the caller / evaluation goroutine / consumer / producer / context-timer protocol over unbuffered channels; "
         "TLC checks NoStranded, NoFalseSuccess, RightSentinel and liveness (CallerReturns, <>[]AllExited under weak fairness) for all "
         "scenarios with the timer firing at any step, and refutes the pinned tree's protocol in three negative models. Every scenario "
         "class is executed on the real engine through all four entry points; outcome sentinel, return time and the goroutine profile "
         "after return are compared. DatalogRun.tla's limit contract is validated on the real engine by TLC trace validation; Authz.tla's run "
         "limits (inherited by every per-block world) are replayed on two-later-block tokens incl. a retry after a limit error.",
    design="6/C11", technique="TLA+ model of the goroutine/channel protocol, TLC safety+liveness; spec->code replay of every scenario with goroutine-profile observation",
    note="Trusted: TLC; runtime.Stack as observation of blocked goroutines; timer scenarios depend on real scheduling (timeout or a nominal ERROR outcome accepted; success is not: one rule application cannot fit the budget).")
CLAIMED["C08"] = dict(category="model_checking",
    text="SymHeap.tla models Go slice headers over backing arrays with nondeterministic growth capacity behind every operation that copies or "
         "extends a symbol table; TLC checks Immutable/WireStable over all interleavings (<=5/6 operations) and refutes them for the pinned "
         "tree's header-copy Clone, for an in-place block list and for a Build that hands the builder's table over (builders are not "
         "consumed by Build; authority builders are objects too). TLC-simulated and generated histories (up to 24 tokens, chains of 0-6 blocks, siblings) are stepped through "
         "the spec's actions by TLC (TraceHeap) to obtain each object's expected content, executed on the real library, and every live token "
         "and block is re-observed after every operation.",
    design="6/C08", technique="TLA+ slice-heap model + TLC invariant Immutable; TLC-stepped histories replayed on the code with full re-observation after each operation",
    note="Trusted: TLC; content observed through Code()/String()/Serialize()/RevocationIds()/Authorize and the verif accessor for built blocks.")
CLAIMED["C19"] = dict(category="model_checking",
    text="Threads.tla models each listed operation as atomic reads/writes of the shared token's cells (symbol slots and their spare capacity, "
         "stored block bytes and their spare capacity) for 3 goroutines; TLC checks NoRace/TokenReadOnly over all interleavings and capacity "
         "situations and refutes them for each mechanism of the pinned tree. Every operation multiset exported by TLC (plus shared Parser / "
         "shared parsed values) runs concurrently and repeatedly in a -race build on an unmarshalled token; a race report or a result "
         "different from running alone is the violation.",
    design="6/C19", technique="TLA+ access-level model + TLC NoRace; TLC-exported operation multisets executed under Go's race detector",
    note="Absence of races in code is sampled by the race detector on real schedules (25-200 repetitions per multiset); the model decides the sharing design exhaustively.")
CHAIN_NOTE = ("Trusted: TLC, crypto/ed25519, the harness' own protowire codec. Signatures are symbolic terms (no collisions); contents are two fixed "
              "block contents. Bounds: <=2 (quick) / 3 (thorough) honest operations before hand-over, attacker tokens of <=2 slots, honest "
              "histories of <=3/4 operations for the id / revocation / seal properties.")
CLAIMED["C01"] = dict(category="model_checking",
    text="Chain.tla is a symbolic Dolev-Yao model of the signature chain: honest Build/Append/Seal, hand-over of any subset of honest tokens, "
         "an attacker that assembles tokens slot by slot from every content, key and signature it knows or can make with a known secret, and "
         "any proof. TLC checks Completeness and Unforgeability (an accepted attacker token extends a token it was handed; a sealed token is "
         "final) and finds attacks when the signature does not cover the next key or the proof is unchecked. Every exported attacker token "
         "(265k quick-model tokens; all accepting ones + a 60k/600k seeded sample) is materialised on real bytes with an independent codec "
         "and replayed: Unmarshal+AuthorizerFor must accept iff Chain!Verify.",
    design="6/C01", technique="TLA+ symbolic attacker model + TLC (Unforgeability); spec->code replay of attacker tokens built on the wire bytes",
    note=CHAIN_NOTE)
CLAIMED["C09"] = dict(category="model_checking",
    text="Chain.tla SealPreserves and the Append/Seal guards over all honest histories; seal mutations are the attacker syntheses of C01 on "
         "given sealed tokens (Unforgeability: final). Replay: sealed twins keep content, revocation ids and verification, refuse Append/Seal "
         "before and after reload; the Authz instances are authorized with sealed (and sealed+reloaded) tokens and must give the model's verdicts; "
         "wire mutations of sealed and unsealed tokens abstracted into Chain terms (TraceChain); valid tokens written by another encoder "
         "(raw writer variants and the repository's 28 reference-implementation samples) are sealed, attenuated and reloaded; the wire family's "
         "tokens (all term kinds, caller-supplied base symbol tables) are sealed and must equal the open token in memory and after a round trip.",
    design="6/C09", technique="TLA+ chain model + TLC (SealPreserves, Unforgeability on sealed tokens); spec->code replay incl. sealed Authz instances",
    note=CHAIN_NOTE)
CLAIMED["C16"] = dict(category="model_checking",
    text="Chain.tla IdPreserved and LookupExact over all honest histories with identifiers {absent, 7, 2^32-1, 0} and six key maps; refuted for "
         "the pinned tree's Append/Seal. Replay compares RootKeyID() along every derivation and the outcome class of each lookup "
         "(ok / ErrNoPublicKeyAvailable / signature error) with the model.",
    design="6/C16", technique="TLA+ chain model + TLC (IdPreserved, LookupExact); spec->code replay of all honest histories x key maps",
    note=CHAIN_NOTE)
CLAIMED["C17"] = dict(category="model_checking",
    text="Chain.tla RevPerBlock / RevPrefix / RevUnique over all honest histories (identical contents on same and different tokens). Replay "
         "with fresh randomness: one id per block, equal to the signature an independent decoder finds, parent's ids as prefix, pairwise "
         "distinct across signing operations, independent values (append to one returned id changes no other); over forked histories (siblings "
         "of one parent, SymHeap) the ids of every live token are re-read after every operation.",
    design="6/C17", technique="TLA+ chain model + TLC; spec->code replay with independently decoded signatures",
    note=CHAIN_NOTE)
CLAIMED["C20"] = dict(category="fault_enumeration",
    text="Entropy.tla enumerates the complete fault space of the random source (4 operations x failure after k=0..32 bytes x 12 failure kinds incl. "
         "the error VALUE -- EOF, wrapped EOF, Temporary / Timeout errors, data and error in one Read -- x "
         "3 read sizes), TLC checks NoDegenerateKey / ErrorIffFault / termination and exports each case; every case is executed with a "
         "fault-injecting io.Reader in a worker process; outcome must be (nil, error) for k<32 and a verifying token with the key derived "
         "from the delivered bytes for k=32.",
    design="6/C20", technique="TLA+ fault-space model + TLC; exhaustive fault injection replay",
    note="Trusted: TLC; crypto/ed25519.GenerateKey reads exactly 32 bytes (self-calibrated at run time).")
CLAIMED["C07"] = dict(category="model_checking",
    text="SymbolRules.tla states the published symbol rules (own copy of the default table, offset 1024, new-symbols-only tables, no forward "
         "references, operator code table); Symbols.tla models the builders' interning mechanism and TLC proves its output well formed and "
         "decoding to the input for all short histories. Generated contents (all term types, expressions, sets, shared symbols, 1-4 blocks) "
         "go through the real builders; the bytes are decoded by an independent protowire reader and TLC (TraceWire) checks WellFormed and "
         "Decode(wire) = content. Round trip, byte-identical re-serialization, version gate and byte-stability over sibling histories are "
         "judged on the real library, also for caller-supplied base symbol tables, for tokens written by another encoder and for the "
         "repository's reference-implementation samples (documented symbol tables, byte-identical round trip); GetBlockID / GetContext / Checks "
         "of the reloaded token are validated by TraceWire.",
    design="6/C07", technique="TLA+ symbol-table rules + mechanism model (TLC); TLC trace validation of independently decoded wire bytes",
    note="Trusted: TLC, protowire, the harness' hand-written reader of pb/biscuit.proto. Bounds: histories <=3 blocks x <=2/3 uses (model); generated contents 1-4 blocks.")
CLAIMED["C10"] = dict(category="exploration",
    text="WireAdversary.tla defines the structured adversarial input space (17 fields x boundary values, all singles and all pairs: 5,784 "
         "cases) with a total specification of the 13-operation panel and fixed outcomes for gate-guarded fields; TLC enumerates and exports "
         "it. Each case is encoded with a raw protowire writer, validly signed by an attacker root so decoding, verification and evaluation "
         "are reached, and the panel runs in an isolated worker (recovered panic or process death = violation), together with 4k/150k seeded "
         "byte-level corruptions of these tokens and 1.5k/40k of the repository's reference-implementation samples; the operator sequences of "
         "ExprMC and the expr family (incl. composed set expressions) are evaluated INSIDE such tokens. TLA+ contributes the definition and exhaustive enumeration of the structured space; 'all byte strings' is sampled.",
    design="6/C10 and 8", technique="TLA+ enumeration of the structured adversarial input space (TLC) + isolated-worker replay; seeded byte corruption",
    note="Exploration level: the space of all byte strings cannot be enumerated; coverage = spec-defined field/boundary combinations + random corruption.")
CLAIMED["C14"] = dict(category="model_checking",
    text="Grammar.tla generates expression trees and renders them with exactly the parentheses the documented precedence/associativity "
         "table requires; TLC checks Denotes (Expr.tla's stack machine on the expected postfix form yields the value of the tree) for all "
         "trees with <=2 operators. GrammarElems.tla generates every element kind over 13 term forms with its denotation and the documented "
         "error classes (string literals with raw line breaks / escapes, predicate-free bodies, randomly drawn deep trees included). Every token list is laid out with seeded whitespace, parsed by the FromString* functions and a shared Parser and "
         "compared with the denotation; parsed elements are used (builder, block builder, authorizer); 6k/100k token-level corruptions run "
         "with oracle 'no panic'.",
    design="6/C14", technique="TLA+ grammar generator with denotation (TLC theorem Denotes); spec->code replay of generated texts; seeded token corruption",
    note="The grammar is a generator, not a recogniser: outside the generated language only 'no panic' is decided. Trusted: TLC, Expr.tla operator table.")
CLAIMED["C15"] = dict(category="model_checking",
    text="Same generators restricted to the printable domain. Every generated block / expression is parsed, placed in authority and in later "
         "position of a real token; the text printed by Code() and String() is parsed back and must equal the original parse structurally, "
         "before and after Serialize/Unmarshal, and the printed form must not change across serialization.",
    design="6/C15", technique="TLA+ grammar generator (TLC); spec->code replay: parse, print inside a token, re-parse, compare",
    note="String() lists are unambiguous only for <=1 fact/rule/check per block; richer blocks are inspected through Code(). Sets of strings are outside the property's printable domain.")
CLAIMED["C18"] = dict(category="model_checking",
    text="Lifecycle.tla models SerializePolicies/LoadPolicies; TLC checks SnapshotEquiv and SaveRefusedIffEvaluated over all histories "
         "(3x3 tokens x 54 contents x evaluated/unevaluated), ResnapEquiv (a restored authorizer saved and restored again) and load-reset-load "
         "histories, and exports them; replay saves on the real authorizer, loads into a fresh one for any token and compares verdict and query "
         "results with the model; hand-encoded malformed snapshots and seeded byte corruptions of real snapshots must be refused without panic.",
    design="6/C18", technique="TLA+ lifecycle state machine + TLC; spec->code replay of save/load histories",
    note=AUTHZ_NOTE)

PENDING_REASON = "check under construction in this round (specification module not yet bound to the code); not claimed until it runs green"


def main():
    checks = []
    for p in ALL:
        if p not in CLAIMED:
            continue
        c = CLAIMED[p]
        checks.append({
            "property_id": p,
            "quick_cmd": "./check %s quick" % p,
            "thorough_cmd": "./check %s thorough" % p,
            "evidence_file": "/verif/evidence/%s.json" % p,
            "replay_cmd_template": "./check --replay {path}",
            "engine": "tlc+driver",
            "level_claimed": {"category": c["category"], "text": c["text"], "design_ref": "DESIGN.md section " + c["design"]},
            "level_note": c["note"],
            "technique": c["technique"],
        })
    m = {
        "version": 1,
        "setup_cmd": "./setup.sh",
        "hooks": {
            "guard": "verif",
            "enable": "go build -tags verif (the conformance driver in /verif/harness is always built with -tags verif against /repo via a replace directive)",
            "baseline_off_cmd": "cd /repo && go test -mod=mod -json -vet=off -count=1 -timeout 25m ./...",
            "source_commits": json.load(open(os.path.join(ROOT, "lib", "hook_commits.json"))) if os.path.exists(os.path.join(ROOT, "lib", "hook_commits.json")) else [],
            "add_only": True,
        },
        "engines": [
            {"name": "tlc+driver", "path": "/verif/check",
             "serves_properties": sorted(CLAIMED),
             "kind_free_text": "explicit TLA+ specification (/verif/spec) model-checked with TLC; bound to the code by spec->code replay of TLC-exported behaviours and code->spec validation of recorded traces through the Go conformance driver (/verif/harness)"}
        ],
        "checks": checks,
        "not_applicable": [{"property_id": p, "reason": NA.get(p, PENDING_REASON)} for p in ALL if p not in CLAIMED],
        "notes": "See DESIGN.md. exit 0 = held, 1 = VIOLATION line, 2 = infrastructure failure (never a verdict).",
    }
    json.dump(m, open(os.path.join(ROOT, "MANIFEST.json"), "w"), indent=1)
    print("MANIFEST.json: %d checks, %d not applicable" % (len(checks), len(m["not_applicable"])))


NA = {}

if __name__ == "__main__":
    main()
