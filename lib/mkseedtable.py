#!/usr/bin/env python3
"""Rewrites the seeded-change table in DESIGN.md (between the SEEDED markers) from seeded/*/meta.json."""
import glob, json, os, re
ROOT = os.path.dirname(os.path.dirname(os.path.abspath(__file__)))
rows = []
for f in sorted(glob.glob(os.path.join(ROOT, "seeded", "*", "meta.json"))):
    m = json.load(open(f))
    det = "; ".join("%s: %s" % (k, "DETECTED (%d VIOLATION lines)" % v["violations"] if v["rc"] == 1 else "missed (rc=%s)" % v["rc"])
                    for k, v in sorted(m.get("detected_by", {}).items()))
    rows.append("| %s | %s | %s | %s | %s |" % (m["name"], m["property"], m["needs"].replace("|", "/"), "yes" if m["confirmed"] else "NO", det or "not run"))
table = "| change | breaks | what it needs in order to manifest | confirmed (demo fails with / passes without, suite passes) | checks run against it |\n|---|---|---|---|---|\n" + "\n".join(rows)
p = os.path.join(ROOT, "DESIGN.md")
s = open(p).read()
s = re.sub(r"<!-- SEEDED-BEGIN -->.*<!-- SEEDED-END -->", lambda m: "<!-- SEEDED-BEGIN -->\n" + table + "\n<!-- SEEDED-END -->", s, flags=re.S)
open(p, "w").write(s)
print(len(rows), "seeded changes")
