"""Per-property checks. Each builds on core: L1 TLC on the spec, L2 spec->code replay, L3 code->spec traces."""
import json, os, subprocess, concurrent.futures as cf
import core
from core import Infra, log

CHECKS = {}
REPLAYERS = {}


def check(prop, level="model_checking"):
    def deco(fn):
        CHECKS[prop] = (fn, level)
        return fn
    return deco


def replay(run, body):
    fam = body["family"]
    REPLAYERS[fam](run, body)


def gen_cases(run, driver, family, tier=None):
    p = subprocess.run([driver, "gen", family, tier or run.tier, str(run.seed)], capture_output=True, text=True,
                       env=core.GOENV)
    if p.returncode != 0:
        raise Infra("driver gen %s failed: %s" % (family, p.stderr[-2000:]))
    return [json.loads(l) for l in p.stdout.splitlines() if l.strip()]


def validate_traces(run, module, cfg, events, chunks=None, timeout=1500):
    """Trace validation: events (list of dicts) are written as ndjson chunks, each validated by one TLC
    (workers=1: the trace spec is deterministic and linear).  Returns the list of global indexes TLC rejected."""
    if not events:
        return []
    chunks = chunks or min(4, max(1, len(events) // 4000))
    parts = [(k, events[k::chunks]) for k in range(chunks) if events[k::chunks]]

    def one(arg):
        k, evs = arg
        path = run.work.path("trace.%s.%d.ndjson" % (module, k))
        with open(path, "w") as f:
            for e in evs:
                f.write(json.dumps(e, separators=(",", ":")) + "\n")
        r = core.tlc(run.work, module, cfg, workers=1, env={"TRACE": path}, timeout=timeout, tag="%s.%d" % (cfg, k))
        bad = None
        for kind, payload in r.printed:
            if kind == "BAD":
                j = json.loads(payload)
                if j["n"] != len(evs):
                    raise Infra("trace length mismatch in %s: TLC saw %s of %d" % (module, j["n"], len(evs)))
                bad = j["bad"]
        if bad is None:
            raise Infra("trace spec %s did not reach the end of the trace (rejected prefix?)\n%s" % (module, r.out[-3000:]))
        return r, [k + chunks * (b - 1) for b in bad]
    out = []
    with cf.ThreadPoolExecutor(max_workers=min(len(parts), core.NCPU)) as ex:
        for r, bad in ex.map(one, parts):
            run.add_tlc(r, "trace validation " + module)
            out += bad
    run.traces += len(events)
    return sorted(out)


def same_obs(a, b, keys):
    """a discrepancy reproduces when the fresh-process observation is the same (a crash reproduces as a crash)"""
    if a.get("crash") or b.get("crash"):
        return bool(a.get("crash")) and bool(b.get("crash"))
    if ("panic" in a) or ("panic" in b):
        return ("panic" in a) and ("panic" in b)
    return all(json.dumps(a.get(k), sort_keys=True) == json.dumps(b.get(k), sort_keys=True) for k in keys)


def confirm_case(driver, family, c, o, keys, by_id=None):
    """Re-run a discrepant case in a fresh process. Returns the replayable case if it reproduces, else None.
    A process death may be caused by a goroutine left behind by an earlier case of the same worker: then the
    window of preceding cases is replayed together and becomes the replay unit."""
    again = core.run_driver(driver, family, [dict(c)], nproc=1)[str(c["id"])]
    if same_obs(again, o, keys):
        return c
    if o.get("crash") and by_id is not None:
        window = [dict(by_id[i]) for i in o.get("prev", []) if i in by_id] + [dict(c)]
        res = core.run_driver(driver, family, [dict(w) for w in window], nproc=1)
        if any(r.get("crash") for r in res.values()):
            return {"id": str(c["id"]), "window": window}
    return None


def run_window(driver, family, case):
    """replay helper: a case is either a single case or {'window': [...]}; returns list of (case, obs)"""
    cases = case["window"] if "window" in case else [case]
    res = core.run_driver(driver, family, [dict(w) for w in cases], nproc=1)
    return [(w, res[str(w["id"])]) for w in cases]


def canon(v):
    """canonical JSON text of a spec value (set elements sorted)"""
    if isinstance(v, dict):
        if v.get("t") == "set":
            return json.dumps({"t": "set", "e": sorted(canon(x) for x in v.get("e", []))})
        return json.dumps({k: canon(x) if isinstance(x, (dict, list)) else x for k, x in sorted(v.items())})
    if isinstance(v, list):
        return json.dumps([canon(x) for x in v])
    return json.dumps(v)


# =============================================================== C06 expressions

def _int_of(i):
    n = 0
    for l in reversed(i["m"]):
        n = n * 8192 + l
    return -n if i["neg"] else n


def val_text(v):
    t = v["t"]
    if t == "int":
        return str(_int_of(v["i"]))
    if t == "str":
        s = bytes(v["s"]).decode("utf-8", "replace")
        return json.dumps(s if len(s) < 40 else s[:10] + "...(%d)" % len(s))
    if t == "date":
        return "date:%d" % _int_of({"m": v["d"], "neg": False})
    if t == "bytes":
        return "hex:" + bytes(v["y"]).hex()
    if t == "bool":
        return "true" if v["b"] else "false"
    if t == "set":
        return "[" + ", ".join(val_text(x) for x in v["e"]) + "]"
    return "?"


def expr_text(ops):
    out = []
    for o in ops[:12]:
        out.append(val_text(o["v"]) if o["k"] == "val" else ("$%d" % o["n"] if o["k"] == "var" else o["o"]))
    return " ".join(out) + (" ...(%d ops)" % len(ops) if len(ops) > 12 else "")


def expr_sig(case, res):
    ops = case["ops"]
    return {"expr": expr_text(ops), "result": res.get("k")}


def expr_agrees(exp, obs):
    if obs.get("k") == "panic" or "k" not in obs:
        return False
    if exp["k"] == "any":
        return True
    if exp["k"] == "err":
        return obs["k"] == "err"
    return obs["k"] == "ok" and canon(exp["v"]) == canon(obs["v"])


def expr_report(run, driver, case, res, why):
    sig = expr_sig(case, res)

    def confirm():
        again = core.run_driver(driver, "expr", [dict(case)], nproc=1)[str(case["id"])]
        return again.get("k") == res.get("k") and canon(again.get("v")) == canon(res.get("v"))
    run.report(sig, {k: case[k] for k in ("id", "ops", "env")}, "expr",
               "%s: %s evaluates to %s%s" % (why, sig["expr"], res.get("k"),
                                            " " + val_text(res["v"]) if res.get("v") else " (" + str(res.get("msg", ""))[:120] + ")"),
               confirm)


@check("C06")
def c06(run):
    thorough = run.tier == "thorough"
    run.rule = ("L1: TLC enumerates every operator sequence of length<=N over a 15-value sample (totality) and the BigInt "
                "laws over all pairs of a 24-value 64-bit boundary pool; L2: each enumerated sequence replayed on "
                "(*Expression).Evaluate; L3: every binary operator x ordered pair and unary operator x value of a 63-value "
                "boundary pool plus seeded random well/ill-formed sequences, each recorded evaluation validated by TLC "
                "against Expr!Eval. Non-trivial = distinct (operator, operand types, outcome kind) combinations plus "
                "distinct operator sequences.")
    run.assumptions = ["regex semantics specified only for literal patterns with optional ^/$ anchors (others: no panic only)",
                       "strings are byte sequences; UTF-8 is not interpreted",
                       "sets with duplicate elements are an open corner (no panic only)"]
    driver = core.build_driver(run.work)
    r0 = core.tlc(run.work, "BigIntMC", "BigIntMC", workers=4)
    run.add_tlc(r0, "L1 BigInt laws")
    r1 = core.tlc(run.work, "ExprMC", "ExprMC_thorough" if thorough else "ExprMC_quick", timeout=3000)
    run.add_tlc(r1, "L1 totality + export")
    # L2
    cases = r1.cases
    for i, c in enumerate(cases):
        c["id"] = "m%d" % i
    res = core.run_driver(driver, "expr", cases)
    for c in cases:
        o = res[c["id"]]
        run.count(("L2", expr_text(c["ops"])))
        if not expr_agrees(c["exp"], o):
            expr_report(run, driver, c, o, "L2 spec says %s" % c["exp"]["k"])
    run.traces += len(cases)
    run.sample({"L2_case": expr_text(cases[len(cases) // 2]["ops"]), "expected": cases[len(cases) // 2]["exp"]["k"]})
    # L3
    gcases = gen_cases(run, driver, "expr")
    gres = core.run_driver(driver, "expr", gcases)
    events = []
    for c in gcases:
        o = gres[c["id"]]
        if "k" not in o:
            o = {"k": "panic", "msg": json.dumps(o)[:300]}
        events.append({"ops": c["ops"], "env": c["env"], "res": {k: v for k, v in o.items() if k in ("k", "v")}})
        top = c["ops"][-1] if c["ops"] else {"k": "empty"}
        tys = tuple(x["v"]["t"] for x in c["ops"][:2] if x["k"] == "val") if len(c["ops"]) <= 3 else ("seq", len(c["ops"]))
        run.count(("L3", top.get("o", top["k"]), tys, o["k"]))
    bad = validate_traces(run, "TraceExpr", "TraceExpr", events)
    for b in bad:
        expr_report(run, driver, gcases[b], gres[gcases[b]["id"]], "L3 trace event rejected by Expr!Eval")
    for k in (7, len(gcases) - 5):
        run.sample({"L3_event": expr_text(gcases[k]["ops"]), "observed": gres[gcases[k]["id"]].get("k")})
    run.extra["exhaustive"] = False
    run.extra["l3_events"] = len(events)


def replay_expr(run, body):
    driver = core.build_driver(run.work)
    c = dict(body["case"])
    o = core.run_driver(driver, "expr", [c], nproc=1)[str(c["id"])]
    if "k" not in o:
        o = {"k": "panic"}
    ev = [{"ops": c["ops"], "env": c["env"], "res": {k: v for k, v in o.items() if k in ("k", "v")}}]
    bad = validate_traces(run, "TraceExpr", "TraceExpr", ev, chunks=1)
    run.count("replay")
    if bad:
        run.report(expr_sig(c, o), c, "expr", "replayed: %s evaluates to %s" % (expr_text(c["ops"]), o.get("k")))


REPLAYERS["expr"] = replay_expr


# =============================================================== shared: Datalog engine traces

def emb_of(run, i):
    return run.seed * 7919 + i * 31 + 1


def dl_events(run, driver, join_cases, run_cases):
    """Execute join / run cases on the real engine and return trace events (case + observation)."""
    events, src = [], []
    if join_cases:
        res = core.run_driver(driver, "join", join_cases)
        for c in join_cases:
            o = res[c["id"]]
            events.append({"kind": "join", "body": c["body"], "facts": c["facts"], "k": c["k"],
                           "obs": o if "rows" in o else {"rows": [[-999]], "n": -1}})
            src.append(("join", c, o))
    if run_cases:
        res = core.run_driver(driver, "run", run_cases, per_case_timeout=60)
        for c in run_cases:
            o = res[c["id"]]
            ok = "res" in o
            events.append({"kind": "run", "facts": c["facts"], "rules": c["rules"], "mf": c["mf"], "mi": c["mi"],
                           "queries": c.get("queries", []),
                           "obs": {"res": o["res"], "facts": o["facts"], "qres": o["qres"]} if ok else
                                  {"res": "crash", "facts": [], "qres": []}})
            src.append(("run", c, o))
    return events, src


def atom_text(a):
    return "p%d(%s)" % (a[0], ",".join(("c%d" % t) if t >= 0 else "$v%d" % -t for t in a[1:]))


def rule_text(r):
    g = ", ".join("%s %s %s" % (("c%d" % x["l"]) if x["l"] >= 0 else "$v%d" % -x["l"], x["o"],
                                 ("c%d" % x["r"]) if x["r"] >= 0 else "$v%d" % -x["r"]) if x["o"] not in "TFE" else x["o"]
                  for x in r.get("g", []))
    return "%s <- %s%s" % (atom_text(r["h"]), ", ".join(atom_text(a) for a in r["b"]), (" | " + g) if g else "")


def dl_text(kind, c):
    if kind == "join":
        return "join body=[%s] facts=[%s]" % (", ".join(atom_text(a) for a in c["body"]), ", ".join(atom_text(a) for a in c["facts"]))
    return "run facts=[%s] rules=[%s] maxFacts=%s maxIter=%s" % (
        ", ".join(atom_text(a) for a in c["facts"]), "; ".join(rule_text(r) for r in c["rules"]), c["mf"], c["mi"])


def dl_report(run, driver, kind, c, o, why, by_id=None):
    sig = {"kind": kind, "case": dl_text(kind, c)}
    rc = confirm_case(driver, kind, c, o, ("rows", "n", "res", "facts", "qres"), by_id)
    obs = json.dumps({k: v for k, v in o.items() if k in ("rows", "n", "res", "facts", "qres", "panic", "crash", "stderr")})[:500]
    if "window" in (rc or {}):
        sig["case"] = "process death within a window of %d cases ending at: %s" % (len(rc["window"]), sig["case"])
    run.report(sig, rc, kind, "%s: %s -> observed %s" % (why, sig["case"], obs), (lambda: rc is not None))


def validate_dl(run, driver, join_cases, run_cases, label):
    events, src = dl_events(run, driver, join_cases, run_cases)
    bad = validate_traces(run, "TraceDatalog", "TraceDatalog", events)
    by_id = {str(c["id"]): c for c in join_cases + run_cases}
    for b in bad[:40]:
        kind, c, o = src[b]
        dl_report(run, driver, kind, c, o, label + " event rejected by TraceDatalog", by_id)
    return events


@check("C05")
def c05(run):
    thorough = run.tier == "thorough"
    run.rule = ("L1: DatalogEngine.tla (line-by-line transcription of combine/advanceIndexes) is model-checked against "
                "Datalog!Matches for every catalogue body x every duplicate-free fact LIST (OdometerComplete/Sound/NoRepeat); "
                "DatalogRun.tla (World.Run loop with limits) against Datalog!Lfp (RunCorrect). L2: every enumerated "
                "(body, fact list) and (program, limits) instance is executed on the real engine under a seed-chosen embedding "
                "of constants into all term types and validated by TLC (TraceDatalog). L3: seeded random programs "
                "(arity 0-3, recursion, guards, duplicate facts) likewise. Non-trivial = distinct instances with a non-empty "
                "body/rule list and at least one fact.")
    run.assumptions = ["constants are embedded into concrete terms by a seed-chosen injective map; results are abstracted back by its inverse",
                       "evaluation budget raised to 20 s so the 2 ms default never interferes"]
    driver = core.build_driver(run.work)
    r1 = core.tlc(run.work, "EngineMC_thorough" if thorough else "EngineMC_quick", "EngineMC_thorough" if thorough else "EngineMC_quick",
                  timeout=3400)
    run.add_tlc(r1, "L1 odometer vs Matches + export")
    r2 = core.tlc(run.work, "DatalogRun", "DatalogRun_thorough" if thorough else "DatalogRun_quick", timeout=3400)
    run.add_tlc(r2, "L1 Run loop vs Lfp + export")
    joins = []
    for i, c in enumerate(r1.cases):
        joins.append({"id": "j%d" % i, "emb": emb_of(run, i), "body": c["body"], "facts": c["facts"], "k": c["k"], "exp": c["exp"]})
        if c["body"] and c["facts"]:
            run.count(("join", json.dumps(c["body"]), json.dumps(c["facts"])))
        else:
            run.count()
    runs = []
    for i, c in enumerate(r2.cases):
        runs.append({"id": "r%d" % i, "emb": emb_of(run, i), "facts": c["facts"], "rules": c["rules"],
                     "mf": c["mf"], "mi": c["mi"], "queries": []})
        if c["rules"] and c["facts"]:
            run.count(("run", json.dumps(c["facts"]), json.dumps(c["rules"]), c["mf"], c["mi"]))
        else:
            run.count()
    validate_dl(run, driver, joins, runs, "L2")
    run.sample({"L2_join": dl_text("join", joins[len(joins) // 2]), "expected_rows": joins[len(joins) // 2]["exp"]})
    run.sample({"L2_run": dl_text("run", runs[len(runs) // 3]), "model_outcome": r2.cases[len(runs) // 3]["model"]})
    # L3
    g = gen_cases(run, driver, "run")
    ev = validate_dl(run, driver, [], g, "L3")
    for c, e in zip(g, ev):
        run.count(("gen", c["id"], e["obs"]["res"]) if c["rules"] and c["facts"] else None)
    run.sample({"L3_run": dl_text("run", g[3]), "observed": ev[3]["obs"]["res"], "facts": len(ev[3]["obs"]["facts"])})
    run.extra["exhaustive"] = False


def replay_dl(kind):
    def f(run, body):
        driver = core.build_driver(run.work)
        c = dict(body["case"])
        cs = c["window"] if "window" in c else [c]
        events, src = dl_events(run, driver, cs if kind == "join" else [], cs if kind == "run" else [])
        bad = validate_traces(run, "TraceDatalog", "TraceDatalog", events, chunks=1)
        run.count("replay")
        if bad:
            run.report(body["sig"], c, kind, "replayed: " + dl_text(kind, cs[-1]))
    return f


REPLAYERS["join"] = replay_dl("join")
REPLAYERS["run"] = replay_dl("run")
