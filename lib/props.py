"""Per-property checks. Each builds on core: L1 TLC on the spec, L2 spec->code replay, L3 code->spec traces."""
import json, os, subprocess, concurrent.futures as cf
import core
from core import Infra, log

CHECKS = {}
REPLAYERS = {}


def check(prop, level="model_checking"):
    def deco(fn):
        CHECKS[prop] = (fn, level)
        return fn
    return deco


def replay(run, body):
    fam = body["family"]
    REPLAYERS[fam](run, body)


def gen_cases(run, driver, family, tier=None):
    p = subprocess.run([driver, "gen", family, tier or run.tier, str(run.seed)], capture_output=True, text=True,
                       env=core.GOENV)
    if p.returncode != 0:
        raise Infra("driver gen %s failed: %s" % (family, p.stderr[-2000:]))
    return [json.loads(l) for l in p.stdout.splitlines() if l.strip()]


def validate_traces(run, module, cfg, events, chunks=None, timeout=1500):
    """Trace validation: events (list of dicts) are written as ndjson chunks, each validated by one TLC
    (workers=1: the trace spec is deterministic and linear).  Returns the list of global indexes TLC rejected."""
    if not events:
        return []
    chunks = chunks or min(4, max(1, len(events) // 4000))
    parts = [(k, events[k::chunks]) for k in range(chunks) if events[k::chunks]]

    def one(arg):
        k, evs = arg
        path = run.work.path("trace.%s.%d.ndjson" % (module, k))
        with open(path, "w") as f:
            for e in evs:
                f.write(json.dumps(e, separators=(",", ":")) + "\n")
        r = core.tlc(run.work, module, cfg, workers=1, env={"TRACE": path}, timeout=timeout, tag="%s.%d" % (cfg, k))
        bad = None
        for kind, payload in r.printed:
            if kind == "BAD":
                j = json.loads(payload)
                if j["n"] != len(evs):
                    raise Infra("trace length mismatch in %s: TLC saw %s of %d" % (module, j["n"], len(evs)))
                bad = j["bad"]
        if bad is None:
            raise Infra("trace spec %s did not reach the end of the trace (rejected prefix?)\n%s" % (module, r.out[-3000:]))
        return r, [k + chunks * (b - 1) for b in bad]
    out = []
    with cf.ThreadPoolExecutor(max_workers=min(len(parts), core.NCPU)) as ex:
        for r, bad in ex.map(one, parts):
            run.add_tlc(r, "trace validation " + module)
            out += bad
    run.traces += len(events)
    return sorted(out)


def same_obs(a, b, keys):
    """a discrepancy reproduces when the fresh-process observation is the same (a crash reproduces as a crash)"""
    if a.get("crash") or b.get("crash"):
        return bool(a.get("crash")) and bool(b.get("crash"))
    if ("panic" in a) or ("panic" in b):
        return ("panic" in a) and ("panic" in b)
    return all(json.dumps(a.get(k), sort_keys=True) == json.dumps(b.get(k), sort_keys=True) for k in keys)


def confirm_case(driver, family, c, o, keys, by_id=None):
    """Re-run a discrepant case in a fresh process. Returns the replayable case if it reproduces, else None.
    A process death may be caused by a goroutine left behind by an earlier case of the same worker: then the
    window of preceding cases is replayed together and becomes the replay unit."""
    again = run_one(driver, family, c)
    if same_obs(again, o, keys):
        return c
    if o.get("crash") and by_id is not None:
        window = [dict(by_id[i]) for i in o.get("prev", []) if i in by_id] + [dict(c)]
        res = core.run_driver(driver, family, [dict(w) for w in window], nproc=1, record=False)
        if any(r.get("crash") for r in res.values()):
            return {"id": str(c["id"]), "window": window}
    # state kept inside the PROCESS by earlier cases (package-level caches ...): the observation depends on what the same driver
    # process executed before; the case then reproduces only after those cases, which become part of the replay unit (`_prefix`)
    if not o.get("crash") and isinstance(o, dict) and o.get("_pre"):
        for n in (8, 64, o["_pre"]):
            pre = [dict(w) for w in core.predecessors(family, o, n)]
            if pre and same_obs(run_one(driver, family, dict(c, _prefix=pre)), o, keys):
                return dict(c, _prefix=pre)
            if n >= o["_pre"]:
                break
    return None


def wp(case, rc):
    """the reported (replayable) case carries the process history it needs, when confirmation found one"""
    if isinstance(rc, dict) and rc.get("_prefix"):
        return dict(case, _prefix=rc["_prefix"])
    return case


def run_one(driver, family, c):
    """one case in a fresh process, after the cases of its `_prefix` (if any) in the same process"""
    c = dict(c)
    pre = c.pop("_prefix", None) or []
    extra = {k: c.pop(k) for k in list(c) if k in ("inst", "mode", "only", "props")}   # judge-side annotations, not driver input
    res = core.run_driver(driver, family, [{k: v for k, v in dict(x).items() if k not in ("inst", "mode", "only", "props")} for x in pre] + [c], nproc=1, record=False)
    return res[str(c["id"])]


def run_window(driver, family, case):
    """replay helper: a case is either a single case or {'window': [...]}; returns list of (case, obs)"""
    cases = case["window"] if "window" in case else [case]
    res = core.run_driver(driver, family, [dict(w) for w in cases], nproc=1)
    return [(w, res[str(w["id"])]) for w in cases]


def canon(v):
    """canonical JSON text of a spec value (set elements sorted)"""
    if isinstance(v, dict):
        if v.get("t") == "set":
            return json.dumps({"t": "set", "e": sorted(canon(x) for x in v.get("e", []))})
        return json.dumps({k: canon(x) if isinstance(x, (dict, list)) else x for k, x in sorted(v.items())})
    if isinstance(v, list):
        return json.dumps([canon(x) for x in v])
    return json.dumps(v)


# =============================================================== C06 expressions

def _int_of(i):
    n = 0
    for l in reversed(i["m"]):
        n = n * 8192 + l
    return -n if i["neg"] else n


def val_text(v):
    t = v["t"]
    if t == "int":
        return str(_int_of(v["i"]))
    if t == "str":
        s = bytes(v["s"]).decode("utf-8", "replace")
        return json.dumps(s if len(s) < 40 else s[:10] + "...(%d)" % len(s))
    if t == "date":
        return "date:%d" % _int_of({"m": v["d"], "neg": False})
    if t == "bytes":
        return "hex:" + bytes(v["y"]).hex()
    if t == "bool":
        return "true" if v["b"] else "false"
    if t == "set":
        return "[" + ", ".join(val_text(x) for x in v["e"]) + "]"
    return "?"


def expr_text(ops):
    out = []
    for o in ops[:12]:
        out.append(val_text(o["v"]) if o["k"] == "val" else ("$%d" % o["n"] if o["k"] == "var" else o["o"]))
    return " ".join(out) + (" ...(%d ops)" % len(ops) if len(ops) > 12 else "")


def expr_sig(case, res):
    ops = case["ops"]
    return {"expr": expr_text(ops), "result": res.get("k")}


def expr_agrees(exp, obs):
    if obs.get("k") in ("panic", "unstable") or "k" not in obs:
        return False
    if exp["k"] == "any":
        return True
    if exp["k"] == "err":
        return obs["k"] == "err"
    return obs["k"] == "ok" and canon(exp["v"]) == canon(obs["v"])


def expr_report(run, driver, case, res, why):
    sig = expr_sig(case, res)

    def confirm():
        again = core.run_driver(driver, "expr", [dict(case)], nproc=1)[str(case["id"])]
        return again.get("k") == res.get("k") and canon(again.get("v")) == canon(res.get("v"))
    run.report(sig, {k: case[k] for k in ("id", "ops", "env")}, "expr",
               "%s: %s evaluates to %s%s" % (why, sig["expr"], res.get("k"),
                                            " " + val_text(res["v"]) if res.get("v") else " (" + str(res.get("msg", ""))[:120] + ")"),
               confirm)


@check("C06")
def c06(run):
    thorough = run.tier == "thorough"
    run.rule = ("L1: TLC enumerates every operator sequence of length<=N over a 15-value sample (totality) and the BigInt "
                "laws over all pairs of a 24-value 64-bit boundary pool; L2: each enumerated sequence replayed on "
                "(*Expression).Evaluate; L3: every binary operator x ordered pair and unary operator x value of a 63-value "
                "boundary pool plus seeded random well/ill-formed sequences, each recorded evaluation validated by TLC "
                "against Expr!Eval. Non-trivial = distinct (operator, operand types, outcome kind) combinations plus "
                "distinct operator sequences.")
    run.assumptions = ["regex semantics specified only for literal patterns with optional ^/$ anchors (others: no panic only)",
                       "strings are byte sequences; UTF-8 is not interpreted",
                       "sets with duplicate elements are an open corner (no panic only)"]
    driver = core.build_driver(run.work)
    r0 = core.tlc(run.work, "BigIntMC", "BigIntMC", workers=4)
    run.add_tlc(r0, "L1 BigInt laws")
    r1 = core.tlc(run.work, "ExprMC", "ExprMC_thorough" if thorough else "ExprMC_quick", timeout=3000)
    run.add_tlc(r1, "L1 totality + export")
    # L2
    cases = r1.cases
    for i, c in enumerate(cases):
        c["id"] = "m%d" % i
    res = core.run_driver(driver, "expr", cases)
    for c in cases:
        o = res[c["id"]]
        run.count(("L2", expr_text(c["ops"])))
        if not expr_agrees(c["exp"], o):
            expr_report(run, driver, c, o, "L2 spec says %s" % c["exp"]["k"])
    run.traces += len(cases)
    run.sample({"L2_case": expr_text(cases[len(cases) // 2]["ops"]), "expected": cases[len(cases) // 2]["exp"]["k"]})
    # L3
    gcases = gen_cases(run, driver, "expr")
    gres = core.run_driver(driver, "expr", gcases)
    events = []
    for c in gcases:
        o = gres[c["id"]]
        if "k" not in o:
            o = {"k": "panic", "msg": json.dumps(o)[:300]}
        events.append({"ops": c["ops"], "env": c["env"], "res": {k: v for k, v in o.items() if k in ("k", "v")}})
        top = c["ops"][-1] if c["ops"] else {"k": "empty"}
        tys = tuple(x["v"]["t"] for x in c["ops"][:2] if x["k"] == "val") if len(c["ops"]) <= 3 else ("seq", len(c["ops"]))
        run.count(("L3", top.get("o", top["k"]), tys, o["k"]))
    bad = validate_traces(run, "TraceExpr", "TraceExpr", events)
    for b in bad:
        expr_report(run, driver, gcases[b], gres[gcases[b]["id"]], "L3 trace event rejected by Expr!Eval")
    for k in (7, len(gcases) - 5):
        run.sample({"L3_event": expr_text(gcases[k]["ops"]), "observed": gres[gcases[k]["id"]].get("k")})
    run.extra["exhaustive"] = False
    run.extra["l3_events"] = len(events)


def replay_expr(run, body):
    driver = core.build_driver(run.work)
    c = dict(body["case"])
    o = run_one(driver, "expr", c)
    if "k" not in o:
        o = {"k": "panic"}
    ev = [{"ops": c["ops"], "env": c["env"], "res": {k: v for k, v in o.items() if k in ("k", "v")}}]
    bad = validate_traces(run, "TraceExpr", "TraceExpr", ev, chunks=1)
    run.count("replay")
    if bad:
        run.report(expr_sig(c, o), c, "expr", "replayed: %s evaluates to %s" % (expr_text(c["ops"]), o.get("k")))


REPLAYERS["expr"] = replay_expr


# =============================================================== shared: Datalog engine traces

def emb_of(run, i):
    return run.seed * 7919 + i * 31 + 1


def dl_events(run, driver, join_cases, run_cases, nproc=None):
    """Execute join / run cases on the real engine and return trace events (case + observation)."""
    events, src = [], []
    if join_cases:
        res = core.run_driver(driver, "join", join_cases, nproc=nproc)
        for c in join_cases:
            o = res[c["id"]]
            events.append({"kind": "join", "body": c["body"], "facts": c["facts"], "k": c["k"],
                           "obs": o if "rows" in o else {"rows": [[-999]], "n": -1}})
            src.append(("join", c, o))
    if run_cases:
        res = core.run_driver(driver, "run", run_cases, per_case_timeout=60, nproc=nproc)
        for c in run_cases:
            o = res[c["id"]]
            ok = "res" in o
            events.append({"kind": "run", "facts": c["facts"], "rules": c["rules"], "mf": c["mf"], "mi": c["mi"],
                           "queries": c.get("queries", []),
                           "obs": {"res": o["res"], "facts": o["facts"], "qres": o["qres"]} if ok else
                                  {"res": "crash", "facts": [], "qres": []}})
            src.append(("run", c, o))
    return events, src


def atom_text(a):
    return "p%d(%s)" % (a[0], ",".join(("c%d" % t) if t >= 0 else "$v%d" % -t for t in a[1:]))


def rule_text(r):
    g = ", ".join("%s %s %s" % (("c%d" % x["l"]) if x["l"] >= 0 else "$v%d" % -x["l"], x["o"],
                                 ("c%d" % x["r"]) if x["r"] >= 0 else "$v%d" % -x["r"]) if x["o"] not in "TFE" else x["o"]
                  for x in r.get("g", []))
    return "%s <- %s%s" % (atom_text(r["h"]), ", ".join(atom_text(a) for a in r["b"]), (" | " + g) if g else "")


def dl_text(kind, c):
    if kind == "join":
        return "join body=[%s] facts=[%s]" % (", ".join(atom_text(a) for a in c["body"]), ", ".join(atom_text(a) for a in c["facts"]))
    return "run facts=[%s] rules=[%s]%s maxFacts=%s maxIter=%s" % (
        ", ".join(atom_text(a) for a in c["facts"]), "; ".join(rule_text(r) for r in c["rules"]),
        (" queries=[%s]" % "; ".join(rule_text(r) for r in c["queries"])) if c.get("queries") else "", c["mf"], c["mi"])


def dl_report(run, driver, kind, c, o, why, by_id=None):
    sig = {"kind": kind, "case": dl_text(kind, c)}
    rc = confirm_case(driver, kind, c, o, ("rows", "n", "res", "facts", "qres"), by_id)
    obs = json.dumps({k: v for k, v in o.items() if k in ("rows", "n", "res", "facts", "qres", "panic", "crash", "stderr")})[:500]
    if "window" in (rc or {}):
        sig["case"] = "process death within a window of %d cases ending at: %s" % (len(rc["window"]), sig["case"])
    run.report(sig, rc, kind, "%s: %s -> observed %s" % (why, sig["case"], obs), (lambda: rc is not None))


def validate_dl(run, driver, join_cases, run_cases, label):
    events, src = dl_events(run, driver, join_cases, run_cases)
    bad = validate_traces(run, "TraceDatalog", "TraceDatalog", events)
    by_id = {str(c["id"]): c for c in join_cases + run_cases}
    for b in bad[:40]:
        kind, c, o = src[b]
        dl_report(run, driver, kind, c, o, label + " event rejected by TraceDatalog", by_id)
    return events


# queries whose head instances coincide with facts already in the world (e(x,y) <- e(x,y), ...)
IDENTITY_QUERIES = [{"h": [p] + v, "b": [[p] + v], "g": []} for p, v in ((0, [-1, -2]), (1, [-1, -2]), (2, [-1]), (3, [-1]), (4, [-1]))] + \
                   [{"h": [1, -1, -3], "b": [[0, -1, -2], [1, -2, -3]], "g": []}]


@check("C05")
def c05(run):
    thorough = run.tier == "thorough"
    run.rule = ("L1: DatalogEngine.tla (line-by-line transcription of combine/advanceIndexes) is model-checked against "
                "Datalog!Matches for every catalogue body x every duplicate-free fact LIST (OdometerComplete/Sound/NoRepeat); "
                "DatalogRun.tla (World.Run loop with limits) against Datalog!Lfp (RunCorrect). L2: every enumerated "
                "(body, fact list) and (program, limits) instance is executed on the real engine under a seed-chosen embedding "
                "of constants into all term types and validated by TLC (TraceDatalog). L3: seeded random programs "
                "(arity 0-3, recursion, guards, duplicate facts) likewise. Non-trivial = distinct instances with a non-empty "
                "body/rule list and at least one fact.")
    run.assumptions = ["constants are embedded into concrete terms by a seed-chosen injective map; results are abstracted back by its inverse",
                       "evaluation budget raised to 20 s so the 2 ms default never interferes"]
    driver = core.build_driver(run.work)
    r1 = core.tlc(run.work, "EngineMC_thorough" if thorough else "EngineMC_quick", "EngineMC_thorough" if thorough else "EngineMC_quick",
                  timeout=3400)
    run.add_tlc(r1, "L1 odometer vs Matches + export")
    r2 = core.tlc(run.work, "DatalogRun", "DatalogRun_thorough" if thorough else "DatalogRun_quick", timeout=3400)
    run.add_tlc(r2, "L1 Run loop vs Lfp + export")
    joins = []
    for i, c in enumerate(r1.cases):
        joins.append({"id": "j%d" % i, "emb": emb_of(run, i), "body": c["body"], "facts": c["facts"], "k": c["k"], "exp": c["exp"]})
        if c["body"] and c["facts"]:
            run.count(("join", json.dumps(c["body"]), json.dumps(c["facts"])))
        else:
            run.count()
    runs = []
    for i, c in enumerate(r2.cases):
        runs.append({"id": "r%d" % i, "emb": emb_of(run, i), "facts": c["facts"], "rules": c["rules"],
                     "mf": c["mf"], "mi": c["mi"], "queries": IDENTITY_QUERIES})
        if c["rules"] and c["facts"]:
            run.count(("run", json.dumps(c["facts"]), json.dumps(c["rules"]), c["mf"], c["mi"]))
        else:
            run.count()
    validate_dl(run, driver, joins, runs, "L2")
    run.sample({"L2_join": dl_text("join", joins[len(joins) // 2]), "expected_rows": joins[len(joins) // 2]["exp"]})
    run.sample({"L2_run": dl_text("run", runs[len(runs) // 3]), "model_outcome": r2.cases[len(runs) // 3]["model"]})
    # L3
    g = gen_cases(run, driver, "run")
    ev = validate_dl(run, driver, [], g, "L3")
    for c, e in zip(g, ev):
        run.count(("gen", c["id"], e["obs"]["res"]) if c["rules"] and c["facts"] else None)
    run.sample({"L3_run": dl_text("run", g[3]), "observed": ev[3]["obs"]["res"], "facts": len(ev[3]["obs"]["facts"])})
    run.extra["exhaustive"] = False


def replay_dl(kind):
    def f(run, body):
        driver = core.build_driver(run.work)
        c = dict(body["case"])
        cs = c["window"] if "window" in c else [dict(x) for x in c.get("_prefix", [])] + [{k: v for k, v in c.items() if k != "_prefix"}]
        events, src = dl_events(run, driver, cs if kind == "join" else [], cs if kind == "run" else [], nproc=1)
        bad = validate_traces(run, "TraceDatalog", "TraceDatalog", events, chunks=1)
        run.count("replay")
        if bad:
            run.report(body["sig"], c, kind, "replayed: " + dl_text(kind, cs[-1]))
    return f


REPLAYERS["join"] = replay_dl("join")
REPLAYERS["run"] = replay_dl("run")


# =============================================================== Authz (C02 C03 C04 C12)

CLASSMAP = {"ok": "ok", "denied": "denied", "nomatch": "nomatch", "checkfail": "failed", "other": "failed"}


def rows(x):
    return sorted(map(tuple, x or []))


def blk_text(b):
    return "{%s%s%s}" % ("; ".join(atom_text(a) for a in b["f"]),
                         ("; " if b["f"] and b["r"] else "") + "; ".join(rule_text(r) for r in b["r"]),
                         "".join("; check if " + " or ".join(rule_text(q).split("<- ", 1)[1] or "true" for q in c) for c in b["c"]))


def az_text(z):
    return blk_text(z) + " policies[" + ", ".join("%s if %s" % (p["kind"], " or ".join(rule_text(q).split("<- ", 1)[1] or "true" for q in p["q"])) for p in z["p"]) + "]"


def inst_text(c):
    return "T=%s %s A=%s" % (blk_text(c["auth"]), " ".join("B%d=%s" % (i + 1, blk_text(b)) for i, b in enumerate(c["blocks"])), az_text(c["az"]))


QUERY_PANEL = [{"h": [11, -1], "b": [[0, -1]], "g": []}, {"h": [11, -1], "b": [[1, -1]], "g": []},
               {"h": [11], "b": [[2]], "g": []}]


def authz_cases(run, insts, mode):
    """One driver case per exported instance: every prefix token T, T+B1, (T+B1+B2) is built and authorized with the
    same authorizer content; mode adds the variants of C03 / C12. Each op carries a label used by authz_judge."""
    out = []
    for i, c in enumerate(insts):
        emb = emb_of(run, i)
        via = ["mem", "bytes"][(emb // 3) % 2]
        nb = len(c["blocks"])
        toks, script, labels = [], [], []

        def tok(blocks):
            toks.append({"auth": c["auth"], "blocks": blocks, "via": via})
            return len(toks) - 1

        lim = c["az"].get("lim")

        def ops(name, t, extra=(), **addkw):
            a = len([l for l in labels if l.endswith(".new")])
            new = {"op": "new", "t": t}
            if lim:
                new.update(mf=lim["mf"], mi=lim["mi"])
                # a limit error must not be "healed" by calling Authorize again on the same authorizer
                extra = list(extra) + [("retry", {"op": "authorize"}), ("retryworld", {"op": "world"})]
            mode = "" if addkw.get("dup") else ["", "block", "authorizer", "text"][(emb + a) % 4]
            for lab, op in [("new", new), ("add", dict({"op": "add", "az": c["az"], "mode": mode}, **addkw)),
                            ("auth", {"op": "authorize"}), ("world", {"op": "world"})] + list(extra):
                script.append(dict(op, a=a))
                labels.append(name + "." + lab)
        for k in range(nb + 1):
            ops("p%d" % k, tok(c["blocks"][:k]), [("bw", {"op": "bworlds"})] if k == nb else [])
        full = "p%d" % nb
        if mode == "C03":
            panel = [("q%d" % j, {"op": "query", "q": q}) for j, q in enumerate(QUERY_PANEL)]
            ops("fullq", tok(c["blocks"]), panel)
            for bi in range(nb):
                bl = [dict(b, f=[], r=[]) if j == bi else b for j, b in enumerate(c["blocks"])]
                ops("strip%d" % bi, tok(bl), panel)
            if nb == 2:
                ops("swap", tok([c["blocks"][1], c["blocks"][0]]), [("bw", {"op": "bworlds"})])
        if mode == "C12":
            ops("shuf", tok(c["blocks"]), [("auth2", {"op": "authorize"}), ("world2", {"op": "world"})], shuf=emb % 9973 + 1, dup=True)
            ops("twice", tok(c["blocks"]), [("auth2", {"op": "authorize"}), ("world2", {"op": "world"})])
        out.append({"id": "z%d" % i, "emb": emb, "toks": toks, "script": script, "labels": labels,
                    "shuf": (emb % 7919 + 1) if mode == "C12" else 0})
    return out


def authz_judge(c, dc, o, mode):
    """Compare the observations of one instance with the expectations TLC exported. Returns list of discrepancy texts."""
    if "harness" in o:
        raise Infra("authz harness: " + o["harness"][:400])
    if "obs" not in o:
        return ["driver: " + json.dumps(o)[:300]]
    ob = dict(zip(dc["labels"], o["obs"]))
    nb = len(c["blocks"])
    bad = []
    names = ["T"] + ["T+" + "+".join("B%d" % (j + 1) for j in range(k)) for k in range(1, nb + 1)]
    def cls(v):
        return "failed" if v in ("maxiter", "maxfacts", "timeout") else v
    vs = [cls(ob["p%d.auth" % k].get("v")) for k in range(nb + 1)]
    for k in range(nb + 1):
        exp = {CLASSMAP[x] for x in c["vs"][k]}
        if "p%d.retry" % k in ob:
            v2 = cls(ob["p%d.retry" % k].get("v"))
            if v2 not in exp:
                bad.append("second Authorize(%s) on the same authorizer = %s (first: %s), specification says %s" % (names[k], v2, vs[k], sorted(exp)))
            if k > 0 and v2 == "ok" and "ok" not in {CLASSMAP[x] for x in c["vs"][k - 1]}:
                bad.append("attenuation widened on retry: second Authorize(%s) ok but %s is refused" % (names[k], names[k - 1]))
        if vs[k] not in exp:
            bad.append("Authorize(%s) = %s, specification says %s" % (names[k], vs[k], sorted(exp)))
        if k > 0 and vs[k] == "ok" and vs[k - 1] != "ok":
            bad.append("attenuation widened: Authorize(%s) ok but Authorize(%s) = %s" % (names[k], names[k - 1], vs[k - 1]))
    world = rows(c["world"])
    full = "p%d" % nb
    if not c["werr"] and rows(ob["p0.world"].get("rows")) != world:
        bad.append("authority-level facts after Authorize(T) = %s, specification says %s" % (rows(ob["p0.world"].get("rows")), world))
    if not c["berr"]:
        for k in range(1, nb + 1):
            if rows(ob["p%d.world" % k].get("rows")) != world:
                bad.append("authority-level facts after Authorize(%s) = %s differ from those of T = %s (block content leaked)" % (
                    names[k], rows(ob["p%d.world" % k].get("rows")), world))
        # NOTE: the per-block worlds kept by the authorizer (hook accessor) are deliberately NOT compared: they are
        # internal, never read again by the library, and the shared backing array of World.Clone lets a later block
        # overwrite them after their checks were evaluated -- unobservable, hence no property violation (DESIGN.md section 7).
    if mode == "C03" and not c["berr"]:
        for bi in range(nb):
            st = "strip%d" % bi
            if rows(ob[st + ".world"].get("rows")) != rows(ob["fullq.world"].get("rows")):
                bad.append("authority-level facts differ with/without B%d's facts and rules: %s vs %s" % (
                    bi + 1, rows(ob["fullq.world"].get("rows")), rows(ob[st + ".world"].get("rows"))))
            for qi in range(len(QUERY_PANEL)):
                x, y = ob["fullq.q%d" % qi], ob[st + ".q%d" % qi]
                if rows(x.get("rows")) != rows(y.get("rows")) or x.get("v") != y.get("v"):
                    bad.append("Query #%d differs with/without B%d's facts and rules: %s vs %s" % (qi, bi + 1, rows(x.get("rows")), rows(y.get("rows"))))
        for qi in range(len(QUERY_PANEL)):
            exp = sorted(tuple(f[1:]) for f in world if f[0] == QUERY_PANEL[qi]["b"][0][0])
            if rows(ob["fullq.q%d" % qi].get("rows")) != exp:
                bad.append("Query #%d = %s, specification says %s" % (qi, rows(ob["fullq.q%d" % qi].get("rows")), exp))
        if nb == 2:
            if cls(ob["swap.auth"].get("v")) != vs[nb]:
                bad.append("block order changes the outcome: %s vs %s" % (ob["swap.auth"].get("v"), vs[nb]))
    if mode == "C12":
        for nm in ("shuf", "twice"):
            v1, v2 = cls(ob[nm + ".auth"].get("v")), cls(ob[nm + ".auth2"].get("v"))
            if v1 != vs[nb]:
                bad.append("presentation '%s' gives %s, plain presentation gives %s" % (nm, v1, vs[nb]))
            if v2 != v1:
                bad.append("second Authorize (%s) gives %s, first gave %s" % (nm, v2, v1))
            if not c["berr"]:
                for w in (nm + ".world", nm + ".world2"):
                    if rows(ob[w].get("rows")) != world:
                        bad.append("derived facts (%s) = %s, specification says %s" % (w, rows(ob[w].get("rows")), world))
    return bad


def authz_check(run, mode, cfgs, sample_n=None):
    driver = core.build_driver(run.work)
    insts = []
    for module, cfg, what, kw in cfgs:
        r = core.tlc(run.work, module, cfg, timeout=3400, **kw)
        run.add_tlc(r, what)
        if kw.get("expect_violation"):
            if not r.violated:
                raise Infra("negative model %s did not violate its invariant: the theorem is vacuous" % cfg)
            run.notes.append("negative model %s: TLC reports %s violated (mechanism is necessary)" % (cfg, r.violated))
            continue
        insts += r.cases
    cases = authz_cases(run, insts, mode)
    res = core.run_driver(driver, "authz", cases, per_case_timeout=120)
    nbad = 0
    for c, dc in zip(insts, cases):
        o = res[dc["id"]]
        run.count(json.dumps([c["auth"], c["blocks"], c["az"]]) if any(b["f"] or b["r"] or b["c"] for b in c["blocks"]) and c["az"]["p"] else None)
        bad = authz_judge(c, dc, o, mode) if not o.get("crash") else ["process died: " + o.get("stderr", "")[-300:]]
        if bad and nbad < 25:
            nbad += 1
            sig = {"instance": inst_text(c), "what": bad[0][:80]}
            rc = confirm_case(driver, "authz", dc, o, ("obs",))
            run.report(sig, wp(dict(dc, inst=c, mode=mode), rc), "authz", "%s: %s" % (inst_text(c), "; ".join(bad)), (lambda rc=rc: rc is not None))
    run.traces += len(cases)
    mid = insts[len(insts) // 2]
    run.sample({"instance": inst_text(mid), "spec_verdict_per_prefix": mid["vs"], "authority_closure": mid["world"], "block_worlds": mid["bws"]})
    return insts


def replay_authz(run, body):
    driver = core.build_driver(run.work)
    dc = dict(body["case"])
    c, mode = dc.pop("inst"), dc.pop("mode")
    o = run_one(driver, "authz", dc)
    bad = authz_judge(c, dc, o, mode) if not o.get("crash") else ["process died"]
    run.count("replay")
    if bad:
        run.report(body["sig"], body["case"], "authz", "replayed: %s: %s" % (inst_text(c), "; ".join(bad)))


REPLAYERS["authz"] = replay_authz

AUTHZ_ASSUME = ["Datalog fragment of the model: ground facts, range-restricted rules, guards lt/le/eq/ne/true/false/uniformly-failing",
                "catalogue constants are embedded into concrete terms of every type (seed-chosen, order-preserving when needed)",
                "error classes: a failed check and an evaluation error are both observed as 'verification failure' (no exported sentinel distinguishes them)"]


def authz_cfgs(run, negs, quick=("AuthzMC_two",), full=True):
    ONE = ("AuthzMC", "AuthzMC_quick", "L1 theorems on every one-later-block catalogue instance + export", {})
    TWO = ("AuthzMC", "AuthzMC_two", "L1 theorems on every two-later-blocks instance + export", {})
    LIM = ("AuthzMC", "AuthzMC_lim", "L1 theorems on two-later-blocks instances under 4 run-limit configurations + export", {})
    if run.tier == "thorough":
        cfgs = [("AuthzMC", "AuthzMC_thorough", "L1 theorems on every one-later-block instance (full authorizer catalogue) + export", {}) if full else ONE, TWO, LIM,
                ("AuthzMC", "AuthzMC_sample", "L1 theorems on random instances of the rich catalogue + export", {"seed": run.seed})]
    else:
        cfgs = [c for c in (ONE, TWO, LIM) if c[1] in quick]
    for n in negs:
        cfgs.append(("AuthzMC", "AuthzMC_neg_" + n, "negative model " + n, {"expect_violation": True}))
    return cfgs


AUTHZ_RULE = ("TLC enumerates every (authority block, appended block, authorizer+ordered policies) instance over small catalogues "
              "(quick 89,856 one-block + 31,104 two-block instances; thorough 606,528 + 31,104 + 96,000 random instances of a richer catalogue with guards and failing expressions), "
              "checks the model theorems, and exports each instance with the specification's verdicts, authority-level closure and "
              "block world; the driver builds both T and T+B with the real builders (in memory or through Serialize/Unmarshal), "
              "authorizes both and compares. Non-trivial = distinct instances with a non-empty appended block and at least one policy.")


@check("C04")
def c04(run):
    run.rule = AUTHZ_RULE + " C04: verdict class of T and of T+B must be in RefVerdict (declarative decision procedure)."
    run.assumptions = AUTHZ_ASSUME
    authz_check(run, "C04", authz_cfgs(run, ["NoReset"], quick=("AuthzMC_quick",)))
    authz_l3(run, core.build_driver(run.work))


@check("C02")
def c02(run):
    run.rule = AUTHZ_RULE + " C02: Authorize(T+B) = ok implies Authorize(T) = ok, and both equal the specification (theorem Monotone)."
    run.assumptions = AUTHZ_ASSUME
    authz_check(run, "C02", authz_cfgs(run, ["PolAfter"], quick=("AuthzMC_two", "AuthzMC_lim")))
    authz_l3(run, core.build_driver(run.work))


@check("C03")
def c03(run):
    run.rule = AUTHZ_RULE + (" C03: additionally T + (B reduced to its checks) is authorized and a panel of authorizer queries is run on both: "
                             "worlds, query results and every other component must be identical (theorem Scoped), the block world must "
                             "contain the authority closure (Visible).")
    run.assumptions = AUTHZ_ASSUME
    authz_check(run, "C03", authz_cfgs(run, ["NoClone"], full=False))
    authz_l3(run, core.build_driver(run.work))


@check("C12")
def c12(run):
    run.rule = AUTHZ_RULE + (" C12: additionally every instance is presented shuffled (facts, rules, checks, queries inside a check; "
                             "never policies), with every authorizer fact added twice, under a different variable naming, and Authorize "
                             "is called twice: verdict and derived facts must equal the single specification value.")
    run.assumptions = AUTHZ_ASSUME
    authz_check(run, "C12", authz_cfgs(run, [], full=False))
    # random first-order programs: after Authorize a query and a SECOND Authorize on the same authorizer must agree with the first
    authz_l3(run, core.build_driver(run.work))
    # engine level: the programs of DatalogRun (recursion, mutual recursion, guards) evaluated with facts and rules
    # presented in a seed-chosen order; every order must give the specification's least fixpoint
    import random
    driver = core.build_driver(run.work)
    r2 = core.tlc(run.work, "DatalogRun", "DatalogRun_thorough" if run.tier == "thorough" else "DatalogRun_quick", timeout=3400)
    run.add_tlc(r2, "L1 Run loop vs Lfp + export (programs to permute)")
    rnd = random.Random(run.seed)
    runs, seen = [], set()
    for i, c in enumerate(r2.cases):
        key = json.dumps([c["facts"], c["rules"]])
        if key in seen or len(c["rules"]) + len(c["facts"]) < 2:
            continue
        seen.add(key)
        for v in range(2):
            f, r = list(c["facts"]), list(c["rules"])
            rnd.shuffle(f)
            rnd.shuffle(r)
            runs.append({"id": "perm%d_%d" % (i, v), "emb": emb_of(run, i + v), "facts": f + f[:1], "rules": r, "mf": 1000, "mi": 100, "queries": []})
            run.count(("perm", json.dumps(f), json.dumps(r)))
    # seeded random programs (longer derivation chains), each in two further orders
    for c in gen_cases(run, driver, "run"):
        if c["mf"] != 1000 or c["mi"] != 100 or len(c["rules"]) < 2:
            continue
        for v in range(2):
            f, r = list(c["facts"]), list(c["rules"])
            rnd.shuffle(f)
            rnd.shuffle(r)
            runs.append(dict(c, id="%s_p%d" % (c["id"], v), facts=f, rules=r))
            run.count(("permgen", c["id"], v))
    validate_dl(run, driver, [], runs, "C12 permuted program")
    run.sample({"permuted_program": dl_text("run", runs[len(runs) // 2])})


# =============================================================== Lifecycle (C13 C18)

def life_case(run, i, c):
    script = []
    for h in c["hist"]:
        op = {"op": h["op"], "a": h["a"]}
        if h["op"] == "new":
            op["t"] = h["arg"]["t"] - 1
            lim = h["arg"].get("lim") or {}
            if lim.get("mf", 1000000) < 1000000:
                op["mf"] = lim["mf"]
            if lim.get("mi", 1000000) < 1000000:
                op["mi"] = lim["mi"]
        elif h["op"] == "add":
            op["az"] = h["arg"]
            op["mode"] = ["", "block", "authorizer", "text"][(i + len(script)) % 4]
        elif h["op"] == "query":
            op["q"] = h["arg"]
        elif h["op"] in ("save", "load"):
            op["slot"] = h["arg"].get("x", 0)
        script.append(op)
    return {"id": "l%d" % i, "emb": emb_of(run, i), "toks": [dict(t, via=["mem", "bytes"][i % 2]) for t in c["toks"]], "script": script}


def life_text(c):
    out = []
    for h in c["hist"]:
        if h["op"] == "add":
            out.append("add" + az_text(h["arg"]))
        elif h["op"] == "query":
            out.append("query(" + rule_text(h["arg"]) + ")")
        elif h["op"] == "new":
            lim = h["arg"].get("lim") or {}
            out.append("new#%d(token %d%s)" % (h["a"], h["arg"]["t"], "".join(", %s=%d" % (k, lim[k]) for k in ("mf", "mi") if lim.get(k, 1000000) < 1000000)))
        else:
            out.append("%s#%d" % (h["op"], h["a"]))
    return " ; ".join(out)


def vclass(v):
    """the limit sentinels are refusals of the evaluation (class `failed`)"""
    return "failed" if v in ("maxiter", "maxfacts", "timeout") else v


def life_judge(c, o):
    if "harness" in o:
        raise Infra("authz harness: " + o["harness"][:400])
    if "obs" not in o:
        return ["driver: " + json.dumps(o)[:300]]
    bad = []
    for k, (h, ob) in enumerate(zip(c["hist"], o["obs"])):
        e = h["exp"]
        if "v" in e:
            exp = {CLASSMAP[x] for x in e["v"]}
            if vclass(ob.get("v")) not in exp:
                bad.append("step %d %s#%d = %s, specification says %s" % (k, h["op"], h["a"], ob.get("v"), sorted(exp)))
        elif "qerr" in e:
            if ob.get("v") in ("ok", None):
                bad.append("step %d query#%d %s succeeded with %s, specification says the evaluation fails" % (k, h["a"], rule_text(h["arg"]), rows(ob.get("rows"))))
        elif "rows" in e:
            exp = sorted(tuple(r[1:]) for r in e["rows"])
            if rows(ob.get("rows")) != exp or ob.get("v") != "ok":
                bad.append("step %d query#%d %s = %s %s, specification says %s" % (k, h["a"], rule_text(h["arg"]), ob.get("v"), rows(ob.get("rows")), exp))
        elif "ok" in e:
            if bool(ob.get("ok")) != e["ok"]:
                bad.append("step %d %s#%d %s, specification says it %s" % (k, h["op"], h["a"], "succeeded" if ob.get("ok") else "failed: " + str(ob.get("err")),
                                                                        "succeeds" if e["ok"] else "is refused"))
    return bad


def life_check(run, cfgs):
    driver = core.build_driver(run.work)
    insts = []
    for cfg, what, kw in cfgs:
        r = core.tlc(run.work, "Lifecycle", cfg, timeout=3400, **kw)
        run.add_tlc(r, what)
        if kw.get("expect_violation"):
            if not r.violated:
                raise Infra("negative model %s did not violate its invariant" % cfg)
            run.notes.append("negative model %s: TLC reports %s violated" % (cfg, r.violated))
            continue
        insts += r.cases
    cases = [life_case(run, i, c) for i, c in enumerate(insts)]
    res = core.run_driver(driver, "authz", cases, per_case_timeout=120)
    cand = []
    for c, dc in zip(insts, cases):
        o = res[dc["id"]]
        run.count(life_text(c))
        bad = life_judge(c, o) if not o.get("crash") else ["process died: " + o.get("stderr", "")[-300:]]
        if bad:
            cand.append((c, dc, o, bad))
    # discrepancies that involve the wall-clock sentinel are confirmed last: they may be load artefacts and must not use up the budget
    cand.sort(key=lambda x: any("timeout" in b for b in x[3]))
    nconf = 0
    for c, dc, o, bad in cand[:80]:
        if nconf >= 20:
            break
        rc = confirm_case(driver, "authz", dc, o, ("obs",))
        nconf += rc is not None
        run.report({"history": life_text(c)}, wp(dict(dc, inst=c), rc), "life", "%s: %s" % (life_text(c), "; ".join(bad)), (lambda rc=rc: rc is not None))
    run.traces += len(cases)
    for k in (len(insts) // 3, 2 * len(insts) // 3):
        run.sample({"history": life_text(insts[k]), "expected": [h["exp"] for h in insts[k]["hist"] if h["op"] in ("authorize", "query", "save")]})
    return insts


def replay_life(run, body):
    driver = core.build_driver(run.work)
    dc = dict(body["case"])
    c = dc.pop("inst")
    o = run_one(driver, "authz", dc)
    bad = life_judge(c, o) if not o.get("crash") else ["process died"]
    run.count("replay")
    if bad:
        run.report(body["sig"], body["case"], "life", "replayed: %s: %s" % (life_text(c), "; ".join(bad)))


REPLAYERS["life"] = replay_life


def replay_polcorrupt(run, body):
    driver = core.build_driver(run.work)
    c = dict(body["case"])
    o = run_one(driver, "polcorrupt", c)
    run.count("replay")
    run.count("replay2")
    if o.get("crash") or o.get("panic") or (o.get("must") == "error" and o.get("loaded")):
        run.report(body["sig"], c, "polcorrupt", "replayed: " + json.dumps(o)[:300])


REPLAYERS["polcorrupt"] = replay_polcorrupt


@check("C13")
def c13(run):
    run.rule = ("Lifecycle.tla models the authorizer object (New/Add/Authorize/Query/Reset); TLC enumerates every history of "
                "2 (quick) / 3 (thorough) rounds [add content; authorize or query; reset] over 3 tokens x 24 contents x 3 evaluations, "
                "checks ResetClean (state after Reset = state of New) and exports each history with the outcomes a fresh authorizer "
                "would give; the driver replays the history on ONE reused authorizer. Non-trivial = distinct histories.")
    run.assumptions = AUTHZ_ASSUME
    t = "thorough" if run.tier == "thorough" else "quick"
    cfgs = [("Lifecycle_reset_" + t, "L1 ResetClean + export of all round histories", {}),
            ("Lifecycle_loadreset_" + t, "L1 ResetClean + export of round histories whose content arrives through LoadPolicies", {}),
            ("Lifecycle_limreset_" + t, "L1 ResetClean (limits included) + export of the round histories of authorizers created with maxFacts 1..3 in which an evaluation fails", {}),
            ("Lifecycle_neg_base", "negative model: base world overwritten after Authorize", {"expect_violation": True}),
            ("Lifecycle_neg_limits", "negative model: Reset builds a world with the default limits", {"expect_violation": True})]
    if run.tier != "thorough":
        # three-round histories (a second Reset) in the quick tier: a seeded sample of simulated behaviours
        cfgs.insert(1, ("Lifecycle_reset_sim", "L1 ResetClean on simulated 3-round histories + export", {"simulate": 120, "depth": 30, "seed": run.seed, "workers": 4}))
        cfgs.insert(2, ("Lifecycle_mixed_sim", "L1 ResetClean on simulated 3-round histories mixing direct additions and LoadPolicies + export", {"simulate": 150, "depth": 40, "seed": run.seed, "workers": 4}))
        cfgs.insert(2, ("Lifecycle_loadreset_sim", "L1 ResetClean on simulated 3-round histories whose content arrives through LoadPolicies + export", {"simulate": 120, "depth": 40, "seed": run.seed, "workers": 4}))
    if run.tier == "thorough":
        cfgs.insert(1, ("Lifecycle_loadreset_sim", "L1 ResetClean on simulated 3-round LoadPolicies histories + export", {"simulate": 400, "depth": 40, "seed": run.seed, "workers": 8}))
        cfgs.insert(1, ("Lifecycle_mixed_sim", "L1 ResetClean on simulated 3-round histories mixing direct additions and LoadPolicies + export", {"simulate": 400, "depth": 40, "seed": run.seed, "workers": 8}))
        cfgs.insert(1, ("Lifecycle_reset_sim", "L1 ResetClean on simulated 3-round histories + export", {"simulate": 400, "depth": 30, "seed": run.seed, "workers": 8}))
        cfgs.insert(2, ("Lifecycle_limreset_sim", "L1 ResetClean on simulated 3-round histories of limited authorizers + export", {"simulate": 400, "depth": 30, "seed": run.seed, "workers": 8}))
    life_check(run, cfgs)


@check("C18")
def c18(run):
    run.rule = ("Lifecycle.tla models SerializePolicies/LoadPolicies; TLC enumerates [new on token t; add content; (authorize|query|nothing); "
                "save; new on ANY token t'; load; authorize; queries; authorize original] over 3x3 tokens x 54 contents, checks "
                "SnapshotEquiv and SaveRefusedIffEvaluated, and the chain [.. save; new; load; save again; new; load; authorize and query all "
                "three] (ResnapEquiv), and exports the histories; the driver replays them (tokens in memory or "
                "through bytes; constants embedded in every term type so the snapshot carries all term kinds and fresh symbols).")
    run.assumptions = AUTHZ_ASSUME
    t = "thorough" if run.tier == "thorough" else "quick"
    insts = life_check(run, [("Lifecycle_snapshot_" + t, "L1 SnapshotEquiv / SaveRefusedIffEvaluated + export", {}),
                             ("Lifecycle_resnapshot", "L1 ResnapEquiv (snapshot of a restored authorizer restored again: all three agree) + export", {}),
                             ("Lifecycle_loadreset_" + t, "L1 + export: snapshots loaded into ONE authorizer that is Reset between the loads (each load behaves like a load into a fresh authorizer)", {})])
    # malformed snapshots: seeded byte corruption of real snapshots and hand-encoded adversarial AuthorizerPolicies messages
    driver = core.build_driver(run.work)
    contents = [h["arg"] for c in insts for h in c["hist"] if h["op"] == "add"]
    cases = []
    knobs = ["", "version-absent", "version-0", "version-4", "policy-kind-99", "policy-kind-neg", "policy-no-kind", "fact-index-2^63", "check-empty-op", "rule-set-bytes"]
    for i in range(2000 if run.tier == "quick" else 60000):
        cases.append({"id": "p%d" % i, "emb": emb_of(run, i), "az": contents[i % len(contents)], "knob": knobs[i % len(knobs)] if i < 40 * len(knobs) else "",
                      "corrupt": 0 if i < 40 * len(knobs) else run.seed * 104729 + i})
    res = core.run_driver(driver, "polcorrupt", cases, per_case_timeout=60)
    for c in cases:
        o = res[c["id"]]
        run.count(("snapshot", c["knob"], c["corrupt"] != 0, c["id"] if c["corrupt"] else json.dumps(c["az"])[:80]))
        bad = []
        if o.get("crash"):
            bad.append("process died: " + o.get("stderr", "")[-300:])
        elif "panic" not in o:
            raise Infra("polcorrupt driver: " + json.dumps(o)[:300])
        else:
            if o["panic"]:
                bad.append("LoadPolicies / evaluation of a loaded snapshot panics: " + o["panic"][:200])
            if o.get("must") == "error" and o.get("loaded"):
                bad.append("a malformed snapshot (%s) is loaded without error" % c["knob"])
        if bad and len(run.violations) < 20:
            rc = confirm_case(driver, "polcorrupt", c, o, ("panic", "loaded"))
            run.report({"what": "panic" if "panic" in bad[0] or "died" in bad[0] else "accepted", "knob": c["knob"]}, wp(c, rc), "polcorrupt",
                       "snapshot %s%s: %s" % (c["knob"] or "(valid)", " + byte corruption #%d" % c["corrupt"] if c["corrupt"] else "", "; ".join(bad)),
                       (lambda rc=rc: rc is not None))
    run.traces += len(cases)


# =============================================================== C11 bounded evaluation / goroutines

def leak_text(c):
    return "scenario need=%d maxIter=%d rules=%d matches=%d exit=%s maxFactsHit=%s timer=%s via=%s" % (
        c["need"], c["mi"], c["rules"], c["m"], c["exit"], c["mf"], c["timer"], c["via"])


def leak_judge(c, o):
    if "res" not in o:
        return ["driver: " + json.dumps(o)[:300]]
    bad = []
    nominal = {"err": "failed"}.get(c["nominal"], c["nominal"])
    allowed = {nominal, "timeout"} if c["timer"] else {nominal}
    if c["timer"] and c.get("heavy", 0) >= 60 and nominal == "ok":
        # one application of the cubic join over >= 60 facts (216,000 combinations) cannot complete within the 300 us budget:
        # the deadline passes DURING the evaluation, which must stop with the timeout error and can never report success
        allowed = {"timeout"}
    if o["res"] not in allowed:
        bad.append("outcome %s, specification allows %s" % (o["res"], sorted(allowed)))
    if o.get("stranded", 0) > 0:
        bad.append("%d goroutine(s) still blocked after the evaluation returned: %s" % (o["stranded"], ", ".join(o.get("where", [])[:3])))
    if o["elapsed_ms"] > o["budget_ms"] + 10000:
        bad.append("returned after %.0f ms with a budget of %.1f ms" % (o["elapsed_ms"], o["budget_ms"]))
    return bad


@check("C11")
def c11(run):
    run.rule = ("L1: GoRoutines.tla (caller / runner+consumer / producer / timer over unbuffered channels) is model-checked for "
                "NoStranded, NoFalseSuccess, RightSentinel and the liveness properties CallerReturns and <>[]AllExited under weak "
                "fairness, over all 576 scenarios (iterations needed, maxIterations, rules, 0-3 matches, early exit kind/position, "
                "maxFacts) with the timer firing at any step; the pinned tree's protocol (unbuffered done, uncancellable producer) "
                "is refuted in three negative models. DatalogRun.tla gives the limit contract. L2: every scenario class x "
                "{timer, no timer} x 4 entry points (World.Run, AuthorizerFor, Authorizer, NewVerifier) is built as a concrete "
                "program; outcome class (errors.Is sentinels), return time and the goroutine profile after return are compared. "
                "Non-trivial = distinct scenario x entry point combinations.")
    run.assumptions = ["stranded = goroutine with a datalog.combine / World.Run frame still parked on a channel after no datalog "
                       "goroutine is runnable any more (polled up to 4 s)",
                       "timer scenarios use a 300 us budget on a cubic join over 60 facts; the timeout or a nominal ERROR outcome is accepted, success is not (it needs a complete rule application, >= 216,000 combinations)"]
    driver = core.build_driver(run.work)
    r = core.tlc(run.work, "GoRoutines", "GoRoutines_fixed", deadlock=False)
    run.add_tlc(r, "L1 protocol: NoStranded + liveness + export")
    for neg in ("today", "neg_done", "neg_producer", "neg_errsend"):
        rn = core.tlc(run.work, "GoRoutines", "GoRoutines_" + neg, expect_violation=True)
        run.add_tlc(rn, "negative model " + neg)
        if not rn.violated:
            raise Infra("negative model GoRoutines_%s holds: NoStranded is vacuous" % neg)
        run.notes.append("negative model %s: TLC reports %s violated" % (neg, rn.violated))
    seen, cases = set(), []
    vias = ["world", "authorizerfor", "authorizer", "newverifier"]
    for c in r.cases:
        sc = c["sc"]
        if sc["m"] == 0 and (sc["mf"] or sc["need"] > 1):
            continue   # not realisable: without a match nothing is derived (fixpoint in iteration 1, no fact to count)
        for timer in ((False, True) if run.tier == "thorough" or len(seen) % 3 == 0 else (False,)):
            key = (sc["need"], sc["mi"], sc["rules"], sc["m"], sc["exit"], sc["mf"], timer)
            if key in seen:
                continue
            seen.add(key)
            via = vias[len(cases) % 4] if run.tier != "thorough" else None
            for v in ([via] if via else vias):
                cases.append({"id": "k%d" % len(cases), "need": sc["need"], "mi": sc["mi"], "rules": sc["rules"], "m": sc["m"],
                              "exit": sc["exit"], "mf": sc["mf"], "timer": timer, "heavy": 60 if timer else 0, "via": v,
                              "nominal": c["nominal"]})
    res = core.run_driver(driver, "leak", cases, nproc=8, per_case_timeout=120)
    for c in cases:
        o = res[c["id"]]
        run.count(leak_text(c))
        bad = leak_judge(c, o) if not o.get("crash") else ["process died: " + o.get("stderr", "")[-300:]]
        if bad:
            sig = {"what": bad[0].split(":")[0][:60] if "goroutine" not in bad[0] else "stranded " + ",".join(sorted(set(w.split(" [")[0] for w in o.get("where", [])))),
                   "exit": c["exit"], "timer": c["timer"], "via": c["via"] if "outcome" in bad[0] else "*"}

            def confirm(c=c):
                for _ in range(3):
                    o2 = core.run_driver(driver, "leak", [dict(c)], nproc=1)[c["id"]]
                    if not o2.get("crash") and leak_judge(c, o2):
                        return True
                return False
            run.report(sig, c, "leak", "%s: %s" % (leak_text(c), "; ".join(bad)), confirm)
    run.traces += len(cases)
    run.sample({"scenario": leak_text(cases[len(cases) // 2]), "nominal": cases[len(cases) // 2]["nominal"]})
    # limit contract on the programs of DatalogRun (sentinel identity, no success before the fixpoint)
    r2 = core.tlc(run.work, "DatalogRun", "DatalogRun_thorough" if run.tier == "thorough" else "DatalogRun_quick", timeout=3400)
    run.add_tlc(r2, "L1 Run loop with limits vs Lfp + export")
    runs = [{"id": "r%d" % i, "emb": emb_of(run, i), "facts": c["facts"], "rules": c["rules"], "mf": c["mf"], "mi": c["mi"], "queries": []}
            for i, c in enumerate(r2.cases)]
    for c in runs:
        run.count(("limit", json.dumps(c["facts"]), json.dumps(c["rules"]), c["mf"], c["mi"]))
    validate_dl(run, driver, [], runs, "L2 limits")
    # limits given to an authorizer are honoured in the authority-level evaluation AND in every per-block world, and a limit
    # error is not healed by calling Authorize again (Authz.tla RunStatus / HitsLimit, configuration AuthzMC_lim)
    authz_check(run, "C02", [("AuthzMC", "AuthzMC_lim", "L1 Authz theorems under 4 run-limit configurations + export", {})])


def replay_leak(run, body):
    driver = core.build_driver(run.work)
    c = dict(body["case"])
    run.count("replay")
    for _ in range(3):
        o = core.run_driver(driver, "leak", [dict(c)], nproc=1)[str(c["id"])]
        bad = leak_judge(c, o) if not o.get("crash") else ["process died"]
        if bad:
            run.report(body["sig"], c, "leak", "replayed: %s: %s" % (leak_text(c), "; ".join(bad)))
            return


REPLAYERS["leak"] = replay_leak


# =============================================================== C08 immutability (SymHeap)

def heap_text(c):
    out = []
    for o in c["hist"]:
        k = o["op"]
        out.append({"create": "create(t%d)" % o.get("t", 0), "add": "add(b%d,s%d)" % (o.get("b", 0), o.get("s", 0)), "build": "build(b%d)" % o.get("b", 0),
                    "append": "append(k%d)" % o.get("k", 0), "getblockid": "getblockid(t%d,s%d)" % (o.get("t", 0), o.get("s", 0)),
                    "seal": "seal(t%d)" % o.get("t", 0), "reload": "reload(t%d)" % o.get("t", 0),
                    "newbuilder": "newbuilder", "buildroot": "buildroot(b%d)" % o.get("b", 0),
                    "xappend": "xappend(k%d,t%d)" % (o.get("k", 0), o.get("t", 0))}[k])
    return " ".join(out)


def heap_expectations(run, cases):
    """TLC steps every history through SymHeap's actions (rejecting histories that are not behaviours of the
    specification) and prints the specification's `want` for every token and built block."""
    path = run.work.path("heap.hist.ndjson")
    with open(path, "w") as f:
        for c in cases:
            f.write(json.dumps({"id": c["id"], "hist": [{k: v for k, v in o.items() if k in ("op", "t", "b", "k", "s")} for o in c["hist"]]}) + "\n")
    r = core.tlc(run.work, "TraceHeap", "TraceHeap", workers=1, env={"TRACE": path}, timeout=1500)
    run.add_tlc(r, "histories stepped through SymHeap actions (expectations)")
    exp = {c["id"]: c for c in r.cases}
    done = [p for k, p in r.printed if k == "BAD"]
    if not done or json.loads(done[0])["n"] != len(cases) or len(exp) != len(cases):
        raise Infra("TraceHeap rejected a history (an operation was not an enabled action of SymHeap): %d of %d accepted\n%s" % (len(exp), len(cases), r.out[-1500:]))
    for c in cases:
        c["want"], c["bwant"] = exp[c["id"]]["want"], exp[c["id"]]["bwant"]
    run.traces += len(cases)


def heap_judge(c, o):
    if "bad" not in o:
        return ["driver: " + json.dumps(o)[:300]]
    return o["bad"]


def heap_stage(run, driver, cases, label, family="heap", only=None):
    res = core.run_driver(driver, family, cases, per_case_timeout=180)
    nbad = 0
    for c in cases:
        o = res[c["id"]]
        sib = len(set(x["t"] for x in c["hist"] if x["op"] == "create")) < sum(1 for x in c["hist"] if x["op"] == "create")
        run.count(heap_text(c) if sib else None)
        bad = heap_judge(c, o) if not o.get("crash") else ["process died: " + o.get("stderr", "")[-300:]]
        if only:
            bad = [b for b in bad if only in b or "process died" in b]
        if bad and nbad < 20:
            nbad += 1
            rc = confirm_case(driver, family, c, o, ("bad",)) if not c.get("conc") else c
            run.report({"history": heap_text(c)}, wp(dict(c, only=only) if only else c, rc), family, "%s %s: %s" % (label, heap_text(c), "; ".join(bad[:3])), (lambda rc=rc: rc is not None))


@check("C08")
def c08(run):
    run.rule = ("L1: SymHeap.tla models Go slice headers over backing arrays with nondeterministic growth capacity and every operation "
                "that clones / extends a symbol table (CreateBlock, AddFact, Build, Append, GetBlockID, Seal, Unmarshal); TLC checks "
                "Immutable (every live token and built block reads exactly what its own caller put in) and WireStable over all "
                "interleavings of <= 6 operations, and refutes it for the pinned tree's header-copy Clone. L2/L3: TLC-simulated and "
                "seeded generator histories (families of up to 20 tokens, blocks of 0-6 symbols so every spare-capacity situation of the "
                "real allocator occurs, siblings from one parent) are stepped through the specification's actions by TLC, which yields "
                "the expected content of every object; the driver executes them and re-observes EVERY live token and block after EVERY "
                "operation (String, Code, Serialize, Unmarshal(Serialize), RevocationIds, Authorize). Non-trivial = distinct histories "
                "with at least two builders created from the same parent.")
    run.assumptions = ["symbols are observed through the printed Datalog of each block (Code()) and the symbols a built block declares (verif accessor)"]
    driver = core.build_driver(run.work)
    r = core.tlc(run.work, "SymHeap", "SymHeap_fixed_thorough" if run.tier == "thorough" else "SymHeap_fixed", timeout=1700)
    run.add_tlc(r, "L1 Immutable / WireStable, all interleavings")
    rn = core.tlc(run.work, "SymHeap", "SymHeap_today", expect_violation=True)
    run.add_tlc(rn, "negative model: header-copy Clone")
    if not rn.violated:
        raise Infra("negative model SymHeap_today holds")
    run.notes.append("negative model (SymbolTable.Clone copies the slice header): TLC reports %s violated" % rn.violated)
    rk = core.tlc(run.work, "SymHeap", "SymHeap_neg_build", expect_violation=True)
    run.add_tlc(rk, "negative model: Build replaces the builder's table by the split-off part")
    if not rk.violated:
        raise Infra("negative model SymHeap_neg_build holds")
    run.notes.append("negative model (Build mutates the builder; builder filled further / built again): TLC reports %s violated" % rk.violated)
    rb = core.tlc(run.work, "SymHeap", "SymHeap_neg_blocklist", expect_violation=True)
    run.add_tlc(rb, "negative model: Append extends the parent's block list in place")
    if not rb.violated:
        raise Infra("negative model SymHeap_neg_blocklist holds")
    run.notes.append("negative model (block list appended in place): TLC reports %s violated" % rb.violated)
    import random
    rs = core.tlc(run.work, "SymHeap", "SymHeap_sim", workers=4, simulate=150 if run.tier == "quick" else 1500, depth=18, seed=run.seed, timeout=600)
    run.add_tlc(rs, "L2 simulated behaviours (export)")
    rnd = random.Random(run.seed)
    sim = [c for c in rs.cases if any(o["op"] == "append" for o in c["hist"])]
    rnd.shuffle(sim)
    sim = sim[:1500 if run.tier == "quick" else 20000]
    for i, c in enumerate(sim):
        c["id"], c["emb"] = "s%d" % i, emb_of(run, i)
    heap_stage(run, driver, sim, "L2")
    gen = gen_cases(run, driver, "heap")
    heap_expectations(run, gen)
    heap_stage(run, driver, gen, "L3")
    run.traces += len(sim)
    run.sample({"history": heap_text(gen[5]), "spec_want_per_token": gen[5]["want"], "spec_want_per_block": gen[5]["bwant"]})


def replay_heap(run, body):
    driver = core.build_driver(run.work, race=bool(body["case"].get("conc")))
    c = dict(body["case"])
    o = run_one(driver, body["family"], c)
    bad = heap_judge(c, o) if not o.get("crash") else ["process died"]
    if c.get("only"):
        bad = [b for b in bad if c["only"] in b or "process died" in b]
    run.count("replay")
    if bad:
        run.report(body["sig"], c, body["family"], "replayed: %s: %s" % (heap_text(c), "; ".join(bad[:3])))


REPLAYERS["heap"] = replay_heap


# =============================================================== C19 concurrency (Threads)

@check("C19")
def c19(run):
    run.rule = ("L1: Threads.tla models every listed operation as a sequence of atomic reads/writes of the shared token's cells (symbol "
                "slots, spare symbol capacity, stored block bytes, spare capacity behind them) for 3 goroutines, all interleavings, all "
                "spare-capacity situations; NoRace and TokenReadOnly hold with fresh verification buffers and deep symbol copies and are "
                "refuted for each mechanism of the pinned tree. L2: every multiset of 3 operations exported by TLC (plus shared-Parser and "
                "shared parsed values) runs concurrently, repeated, in a -race build on a token obtained from Unmarshal; a race report "
                "(halt_on_error) or a result different from the sequential one is the violation. L2b: heap histories of C08 replayed "
                "after concurrent siblings. Non-trivial = distinct operation multisets.")
    run.assumptions = ["absence of races in the code is observed by Go's race detector on real schedules (sampling); the model decides the sharing design",
                       "the race detector only sees races that actually execute in a repetition (20-60 repetitions per multiset)"]
    r = core.tlc(run.work, "Threads", "Threads_fixed")
    run.add_tlc(r, "L1 NoRace / TokenReadOnly, all interleavings + export")
    for neg in ("neg_buffer", "neg_clone"):
        rn = core.tlc(run.work, "Threads", "Threads_" + neg, expect_violation=True)
        run.add_tlc(rn, "negative model " + neg)
        if not rn.violated:
            raise Infra("negative model Threads_%s holds" % neg)
        run.notes.append("negative model %s: TLC reports %s violated" % (neg, rn.violated))
    driver = core.build_driver(run.work, race=True)
    seen, cases = set(), []
    for c in r.cases:
        key = tuple(sorted(c["ops"]))
        if key in seen:
            continue
        seen.add(key)
        cases.append({"id": "c%d" % len(cases), "ops": list(c["ops"]), "reps": 25 if run.tier == "quick" else 120, "nblocks": 2, "emb": emb_of(run, len(cases))})
    extra = [["parse", "parse", "parse"], ["parse", "authorize", "build"], ["authorize", "authorize", "authorize", "authorize"],
             ["verify", "verify", "verify", "verify", "seal", "append"], ["build", "build", "getid", "getid", "append", "append"]]
    for ops in extra:
        cases.append({"id": "c%d" % len(cases), "ops": ops, "reps": 40 if run.tier == "quick" else 200, "nblocks": 1 + len(cases) % 4, "emb": emb_of(run, len(cases))})
    res = core.run_driver(driver, "conc", cases, nproc=8, env={"GORACE": "halt_on_error=1 exitcode=66"}, per_case_timeout=300)
    for c in cases:
        o = res[c["id"]]
        run.count(" ".join(sorted(c["ops"])))
        if o.get("crash"):
            err = o.get("stderr", "")
            if "DATA RACE" in err:
                import re
                locs = re.findall(r"(/repo/[\w/\.]+\.go:\d+)", err)
                where = locs[0] if locs else "?"
                run.report({"race_at": where.replace("/repo/", "")}, c, "conc", "DATA RACE at %s while running %s concurrently on one token" % (where, c["ops"]),
                           (lambda c=c: any(core.run_driver(driver, "conc", [dict(c)], nproc=1, env={"GORACE": "halt_on_error=1 exitcode=66"})[c["id"]].get("crash") for _ in range(3))))
            else:
                run.report({"crash": err[-200:]}, c, "conc", "process died running %s: %s" % (c["ops"], err[-400:]))
        elif o.get("bad"):
            run.report({"ops": " ".join(sorted(c["ops"])), "what": "result differs"}, c, "conc", "%s: %s" % (c["ops"], "; ".join(o["bad"][:3])),
                       (lambda c=c: any(core.run_driver(driver, "conc", [dict(c)], nproc=1)[c["id"]].get("bad") for _ in range(3))))
        elif "bad" not in o:
            raise Infra("conc driver: " + json.dumps(o)[:300])
    run.traces += len(cases)
    run.sample({"concurrent_ops": cases[7]["ops"], "repetitions": cases[7]["reps"]})


def replay_conc(run, body):
    driver = core.build_driver(run.work, race=True)
    c = dict(body["case"])
    run.count("replay")
    for _ in range(3):
        o = core.run_driver(driver, "conc", [dict(c)], nproc=1, env={"GORACE": "halt_on_error=1 exitcode=66"})[str(c["id"])]
        if o.get("crash") or o.get("bad"):
            run.report(body["sig"], c, "conc", "replayed: %s" % (o.get("stderr", "")[-300:] or o.get("bad")))
            return


REPLAYERS["conc"] = replay_conc


# =============================================================== Chain (C01 C09 C16 C17)

RIDMAP = {0: -1, 7: 7, 8: 4294967295, 9: 0}


def chain_text(c):
    hs = []
    for i, h in enumerate(c["hops"]):
        hs.append("t%d=%s" % (i + 1, "build(c%d%s)" % (h["c"], ",rid=%s" % RIDMAP[h["rid"]] if h.get("rid") else "") if h["op"] == "build"
                                else "append(t%d,c%d)" % (h["i"], h["c"]) if h["op"] == "append" else "seal(t%d)" % h["i"]))
    s = " ".join(hs)
    if c.get("atk"):
        a = c["atk"]
        sl = []
        for b in a["bl"]:
            sl.append("[c%d next=k%d sig=k%d:%s]" % (b["c"], b["next"], b["sig"]["key"], json.dumps(b["sig"]["payload"][:3])))
        pf = a["pf"]
        s += " | given=%s | attacker token %s proof=%s" % (sorted(c["given"]), " ".join(sl),
                                                            "secret(k%d)" % pf["k"] if pf["t"] == "sec" else "final(k%d:%s)" % (pf["sig"]["key"], json.dumps(pf["sig"]["payload"][:3])))
    return s


def chain_judge(c, o, props):
    if "harness" in o:
        raise Infra("chain harness: " + o["harness"])
    if "honest" not in o:
        return ["driver: " + json.dumps(o)[:300]]
    bad = []
    for i, (ho, mt, h) in enumerate(zip(o["honest"], c["tokens"], c["hops"])):
        n = "t%d" % (i + 1)
        if "C01" in props:
            if not ho["root"]:
                bad.append("%s (honest %s) is rejected under the issuing root key" % (n, h["op"]))
            if ho["other"]:
                bad.append("%s verifies under a different root key" % n)
        if "C16" in props:
            if ho["rid"] != RIDMAP[mt["rid"]]:
                bad.append("%s reports root key id %s, specification says %s" % (n, ho["rid"], RIDMAP[mt["rid"]]))
            if "lookups" in c and ho["lookups"] != c["lookups"][i]:
                bad.append("%s key lookup outcomes %s, specification says %s" % (n, ho["lookups"], c["lookups"][i]))
        if "C17" in props:
            if ho["nrev"] != len(mt["bl"]):
                bad.append("%s has %d revocation ids for %d blocks" % (n, ho["nrev"], len(mt["bl"])))
            if not ho["rev_is_sig"]:
                bad.append("%s: a revocation id differs from the signature an independent decoder finds on that block" % n)
            if not ho["rev_prefix"]:
                bad.append("%s: revocation ids do not start with its parent's" % n)
            if ho["rev_dup"]:
                bad.append("%s: two different signing operations produced the same revocation id" % n)
            if not ho.get("rev_independent", True):
                bad.append("%s: appending to one returned revocation id changed another identifier (of the returned set or of the next call)" % n)
        if "C09" in props and mt["pf"]["t"] == "fin":
            if not ho.get("sealed_frozen"):
                bad.append("%s is sealed but Append or Seal on it (or on its reloaded copy) did not fail" % n)
            if not ho.get("seal_same_code"):
                bad.append("%s: sealing changed the token's content" % n)
            if not ho["root"] or ho["nrev"] != len(mt["bl"]) or not ho["rev_prefix"]:
                bad.append("%s: sealed token no longer verifies / changed its revocation ids" % n)
            par = o["honest"][h["i"] - 1]
            if ho["rid"] != par["rid"] or ho["lookups"] != par["lookups"]:
                bad.append("%s: sealing changed under which root key (selected by identifier) the token verifies: id %s -> %s, lookups %s -> %s" % (
                    n, par["rid"], ho["rid"], par["lookups"], ho["lookups"]))
    if c.get("atk") and "C01" in props:
        if o.get("accept") != c["accept"]:
            bad.append("attacker token is %s by the library (%s), specification says %s" % (
                "ACCEPTED" if o.get("accept") else "rejected", o.get("stage", ""), "accept" if c["accept"] else "reject"))
    return bad


def chain_stage(run, driver, cases, props, label):
    res = core.run_driver(driver, "chain", cases, per_case_timeout=120)
    nbad = 0
    for c in cases:
        o = res[c["id"]]
        run.count(chain_text(c) if (c.get("atk") or len(c["hops"]) >= 2) else None)
        bad = chain_judge(c, o, props) if not o.get("crash") else ["process died: " + o.get("stderr", "")[-300:]]
        if bad and nbad < 20:
            nbad += 1
            rc = confirm_case(driver, "chain", c, o, ("accept",)) if c.get("atk") else c
            run.report({"case": chain_text(c)[:300], "what": bad[0][:60]}, wp(dict(c, props=sorted(props)), rc), "chain", "%s %s: %s" % (label, chain_text(c), "; ".join(bad[:3])),
                       (lambda rc=rc: rc is not None))
    run.traces += len(cases)


def replay_chain(run, body):
    driver = core.build_driver(run.work)
    c = dict(body["case"])
    props = set(c.pop("props"))
    o = run_one(driver, "chain", c)
    bad = chain_judge(c, o, props) if not o.get("crash") else ["process died"]
    run.count("replay")
    if bad:
        run.report(body["sig"], body["case"], "chain", "replayed: %s: %s" % (chain_text(c), "; ".join(bad[:3])))


REPLAYERS["chain"] = replay_chain
CHAIN_ASSUME = ["signatures are symbolic terms: ed25519 and protobuf are trusted, payloads of different shape never collide",
                "block contents are drawn from two fixed contents (facts over default symbols), materialised as real marshalled blocks"]


def chain_honest(run, driver, props, negs=()):
    t = "thorough" if run.tier == "thorough" else "quick"
    r = core.tlc(run.work, "Chain", "Chain_honest_" + t, timeout=1700)
    run.add_tlc(r, "L1 honest-history invariants + export")
    for n in negs:
        rn = core.tlc(run.work, "Chain", "Chain_" + n, expect_violation=True)
        run.add_tlc(rn, "negative model " + n)
        if not rn.violated:
            raise Infra("negative model Chain_%s holds" % n)
        run.notes.append("negative model %s: TLC reports %s violated" % (n, rn.violated))
    cases = r.cases
    for i, c in enumerate(cases):
        c["id"], c["emb"] = "h%d" % i, emb_of(run, i)
    chain_stage(run, driver, cases, props, "L2 honest history")
    run.sample({"honest_history": chain_text(cases[len(cases) // 2]), "lookups_expected": cases[len(cases) // 2]["lookups"]})
    return cases


@check("C01")
def c01(run):
    run.rule = ("L1: Chain.tla (symbolic Dolev-Yao chain: honest Build/Append/Seal, hand-over of any non-empty subset of honest tokens, "
                "attacker assembling <=2-slot tokens from every known content, key, signature blob or fresh signature under any known "
                "secret, any proof) is model-checked for Completeness and Unforgeability, and refuted when the signature does not cover "
                "the next key or the proof is not checked. L2: every exported (history, given, attacker token) is materialised: honest "
                "steps through the real library, the attacker's token on the bytes with an independent codec and crypto/ed25519 using "
                "only the secrets the model grants; Unmarshal+AuthorizerFor must accept iff Chain!Verify. Non-trivial = distinct "
                "attacker tokens / honest histories of >=2 operations.")
    run.assumptions = CHAIN_ASSUME
    driver = core.build_driver(run.work)
    t = "thorough" if run.tier == "thorough" else "quick"
    r = core.tlc(run.work, "Chain", "Chain_" + t, timeout=3000)
    run.add_tlc(r, "L1 Completeness / Unforgeability, all attacker tokens + export")
    for n in ("neg_nextkey", "neg_proof"):
        rn = core.tlc(run.work, "Chain", "Chain_" + n, expect_violation=True)
        run.add_tlc(rn, "negative model " + n)
        if not rn.violated:
            raise Infra("negative model Chain_%s holds" % n)
        run.notes.append("negative model %s: TLC finds an attack (%s violated)" % (n, rn.violated))
    allcases = list(r.cases)
    if run.tier == "thorough":
        # longer honest histories (<=4 operations) and 3-slot attacker tokens, reached by random walks
        rs = core.tlc(run.work, "Chain", "Chain_sim", workers=8, simulate=400, depth=14, seed=run.seed, timeout=1200)
        run.add_tlc(rs, "L1 Unforgeability on simulated behaviours (<=4 honest operations, 3-slot attacker tokens) + export")
        allcases += rs.cases
    import random
    rnd = random.Random(run.seed)
    acc = [c for c in allcases if c["accept"]]
    rej = [c for c in allcases if not c["accept"]]
    rnd.shuffle(rej)
    cases = acc + rej[:30000 if run.tier == "quick" else 600000]
    for i, c in enumerate(cases):
        c["id"], c["emb"] = "a%d" % i, emb_of(run, i)
    chain_stage(run, driver, cases, {"C01"}, "L2")
    run.extra["attacker_tokens_model"] = len(r.cases)
    run.extra["attacker_tokens_replayed"] = len(cases)
    run.extra["accepted_by_model"] = len(acc)
    run.sample({"case": chain_text(rej[0]), "spec_accepts": False})
    if acc:
        run.sample({"case": chain_text(acc[0]), "spec_accepts": True})
    chain_honest(run, driver, {"C01"})
    chainmut_stage(run, driver, 6000 if run.tier == "quick" else 120000)


@check("C09")
def c09(run):
    run.rule = ("L1: Chain.tla SealPreserves (a sealed token has the same blocks and revocation ids and verifies under exactly the same keys) "
                "and the Append/Seal guards, over all honest histories of <=3/4 operations; seal mutations are instances of C01's attacker "
                "synthesis on sealed tokens (Unforgeability: a sealed token is final). L2: histories replayed: sealed twins verify, keep "
                "content and revocation ids, refuse Append and Seal before and after Serialize/Unmarshal; sealed/unsealed twins give the "
                "same Authorize verdict for the authorizer panel (authz family, via=sealed).")
    run.assumptions = CHAIN_ASSUME
    driver = core.build_driver(run.work)
    chain_honest(run, driver, {"C09", "C01"})
    # seal mutations: the attacker configurations restricted to those that were given a sealed token
    r = core.tlc(run.work, "Chain", "Chain_quick", timeout=3000)
    run.add_tlc(r, "L1 Unforgeability incl. sealed tokens + export")
    sealed = [c for c in r.cases if any(c["tokens"][g - 1]["pf"]["t"] == "fin" for g in c["given"])]
    import random
    random.Random(run.seed).shuffle(sealed)
    sealed = sealed[:20000 if run.tier == "quick" else 200000]
    for i, c in enumerate(sealed):
        c["id"], c["emb"] = "s%d" % i, emb_of(run, i)
    chain_stage(run, driver, sealed, {"C01"}, "L2 sealed-envelope mutation")
    chainmut_stage(run, driver, 3000 if run.tier == "quick" else 60000, "L3 wire mutation (sealed and unsealed tokens)")
    foreign_stage(run, driver)
    corpus_stage(run, driver)
    # the wire family's tokens (all term kinds, 1-4 blocks, contexts, root key ids, caller-supplied BASE symbol tables), each sealed:
    # the sealed token must print, identify and authorize like the open one, in memory and after a round trip
    wc = [dict(c, seal=True, id="w" + str(c["id"])) for c in gen_cases(run, driver, "wire")]
    wres = core.run_driver(driver, "wire", wc, per_case_timeout=120)
    nrep = 0
    for c in wc:
        o = wres[c["id"]]
        run.count(("sealed-wire", c["id"]))
        if "harness" in o:
            raise Infra("wire harness: " + o["harness"])
        msgs = ["process died: " + o.get("stderr", "")[-300:]] if o.get("crash") else [m for m in o.get("roundtrip", []) if "sealing" in m or "differ after Unmarshal" in m]
        if msgs and nrep < 20:
            nrep += 1
            rc = confirm_case(driver, "wire", c, o, ("roundtrip",))
            run.report({"what": msgs[0][:70], "sealed": True}, wp(c, rc), "wire", "sealed " + wire_text(c) + ": " + "; ".join(msgs), (lambda rc=rc: rc is not None))
    run.traces += len(wc)
    # same authorization outcome sealed vs unsealed: the two-block Authz instances with the token sealed
    insts = []
    ra = core.tlc(run.work, "AuthzMC", "AuthzMC_two", timeout=3000)
    run.add_tlc(ra, "L1 Authz instances (verdicts to preserve under sealing)")
    sub = ra.cases[::4 if run.tier == "quick" else 1]
    cases = authz_cases(run, sub, "C09")
    for dc in cases:
        for t in dc["toks"]:
            t["via"] = ["sealed", "sealedbytes"][dc["emb"] % 2]
    res = core.run_driver(driver, "authz", cases, per_case_timeout=120)
    for c, dc in zip(sub, cases):
        o = res[dc["id"]]
        run.count(("sealed-authz", dc["id"]))
        bad = authz_judge(c, dc, o, "C09") if not o.get("crash") else ["process died"]
        if bad:
            rc = confirm_case(driver, "authz", dc, o, ("obs",))
            run.report({"instance": inst_text(c), "sealed": True}, wp(dict(dc, inst=c, mode="C09"), rc), "authz", "sealed token: %s: %s" % (inst_text(c), "; ".join(bad)),
                       (lambda rc=rc: rc is not None))
    run.traces += len(cases)


@check("C16")
def c16(run):
    run.rule = ("L1: Chain.tla IdPreserved (every derived token reports the identifier given at Build) and LookupExact (lookup verifies "
                "against exactly the key registered under the token's identifier, or the default when it has none) over all honest histories "
                "with identifiers {absent, 7, 2^32-1, 0} and six key maps (hit, right key only under another id, miss with default, miss "
                "without default, default wrong); refuted for the pinned tree's Append/Seal (identifier dropped). L2: histories replayed, "
                "RootKeyID() and the outcome class (ok / ErrNoPublicKeyAvailable / signature error) of every lookup compared.")
    run.assumptions = CHAIN_ASSUME
    driver = core.build_driver(run.work)
    chain_honest(run, driver, {"C16"}, negs=("neg_rid",))


@check("C17")
def c17(run):
    run.rule = ("L1: Chain.tla RevPerBlock, RevPrefix, RevUnique (equal identifiers only for the same signing operation: every payload "
                "contains a fresh next key) over all honest histories incl. identical contents on the same and on different tokens. "
                "L2: histories replayed with fresh randomness: one id per block, equal to the signature the independent codec decodes, "
                "parent's ids as prefix, pairwise distinct across signing operations. L3 (stable): the forked histories of SymHeap "
                "(siblings from one parent with 1-20 tokens) are executed and RevocationIds() of EVERY live token is re-read after "
                "every operation.")
    run.assumptions = CHAIN_ASSUME
    driver = core.build_driver(run.work)
    chain_honest(run, driver, {"C17"})
    # stability over FORKED derivation histories (SymHeap: several children of one parent, every spare-capacity situation of the
    # block list): the identifiers every live token reports are re-read after every later operation on any other token
    gen = gen_cases(run, driver, "heap")
    heap_expectations(run, gen)
    heap_stage(run, driver, gen, "L3 identifiers re-read after every operation on a sibling", only="RevocationIds()")


# =============================================================== C20 entropy failure

def rng_judge(c, o):
    if "outcome" not in o:
        return ["driver: " + json.dumps(o)[:300]]
    bad = []
    if o["outcome"] != c["exp"]:
        bad.append("outcome %s%s, specification says %s" % (o["outcome"], " (" + o.get("msg", "")[:120] + ")" if o.get("msg") else "", c["exp"]))
    if o["outcome"] == "token":
        if not o.get("key_from_delivered_bytes", True):
            bad.append("the returned token's next key is not the one derived from the bytes the source delivered")
        if not o.get("verifies", True):
            bad.append("the returned token does not verify")
    return bad


@check("C20", "fault_enumeration")
def c20(run):
    run.rule = ("Entropy.tla enumerates every fault of the random source: operation in {Builder.Build+WithRNG, New, Append, Append after "
                "reload} x bytes delivered before the failure k in 0..32 (32 = no failure) x failure kind {error, EOF, wrapped EOF, ErrUnexpectedEOF, "
                "zero-byte read then error, EAGAIN / EINTR (Temporary), deadline exceeded (Timeout), *PathError, last bytes and error "
                "(or EOF) delivered by the same Read} x maximal read size {1, 7, 32}; TLC checks NoDegenerateKey / ErrorIffFault / termination and "
                "exports each case with the specified outcome; each case is executed on the real library with a fault-injecting io.Reader "
                "in a worker process (a panic or process death is a violation). Exhaustive over this space. Non-trivial = cases with k < 32.")
    run.assumptions = ["the key generator reads exactly 32 bytes (self-calibrated against crypto/ed25519.GenerateKey of the toolchain)"]
    driver = core.build_driver(run.work)
    r = core.tlc(run.work, "Entropy", "Entropy", workers=4, deadlock=False)
    run.add_tlc(r, "L1 fault space: NoDegenerateKey / ErrorIffFault / Terminates + export")
    cases = r.cases
    for i, c in enumerate(cases):
        c["id"] = "e%d" % i
    res = core.run_driver(driver, "rng", cases, per_case_timeout=60)
    for c in cases:
        o = res[c["id"]]
        run.count((c["op"], c["k"], c["fault"], c["chunk"]) if c["k"] < 32 else None)
        bad = rng_judge(c, o) if not o.get("crash") else ["process died: " + o.get("stderr", "")[-300:]]
        if bad and len(run.violations) < 20:
            rc = confirm_case(driver, "rng", c, o, ("outcome",))
            run.report({"op": c["op"], "what": "panic" if "panic" in bad[0] else bad[0][:50]}, wp(c, rc), "rng",
                       "%s with a source failing (%s) after %d bytes, reads of <=%d: %s" % (c["op"], c["fault"], c["k"], c["chunk"], "; ".join(bad)),
                       (lambda rc=rc: rc is not None))
    run.traces += len(cases)
    run.exhaustive = True
    run.extra["exhaustive"] = True
    run.sample({"op": cases[5]["op"], "bytes_before_failure": cases[5]["k"], "fault": cases[5]["fault"], "max_read": cases[5]["chunk"], "specified": cases[5]["exp"]})


def replay_rng(run, body):
    driver = core.build_driver(run.work)
    c = dict(body["case"])
    o = run_one(driver, "rng", c)
    bad = rng_judge(c, o) if not o.get("crash") else ["process died"]
    run.count("replay")
    run.count("replay2")
    if bad:
        run.report(body["sig"], c, "rng", "replayed: " + "; ".join(bad))


REPLAYERS["rng"] = replay_rng


# =============================================================== C07 wire fidelity (Symbols)

def norm_term(t):
    k = t["k"]
    if k in ("var", "str"):
        return {"k": k, "x": t.get("x", "" if isinstance(t.get("x", ""), str) else 0)}
    if k == "set":
        return {"k": "set", "e": [norm_term(e) for e in t.get("e", [])]}
    return {"k": k, "s": t.get("s", "")}


def norm_pred(p):
    return {"name": p["name"], "terms": [norm_term(t) for t in p.get("terms", [])]}


def norm_rule(r, wire):
    ex = []
    for e in r.get("exprs", []):
        ops = []
        for o in e:
            if o["k"] == "value":
                ops.append({"k": "value", "t": norm_term(o["t"])})
            elif wire:
                ops.append({"k": o["k"], "c": o.get("c", 0)})
            else:
                ops.append({"k": o["k"], "o": o["o"]})
        ex.append(ops)
    return {"head": norm_pred(r["head"]), "body": [norm_pred(p) for p in r.get("body", [])], "exprs": ex}


def norm_block(b, wire):
    out = {"context": b.get("context", ""), "facts": [norm_pred(p) for p in b.get("facts", [])],
           "rules": [norm_rule(r, wire) for r in b.get("rules", [])],
           "checks": [[norm_rule(q, wire) for q in c] for c in b.get("checks", [])]}
    if wire:
        out.update({"symbols": b.get("symbols", []), "version": b.get("version", -1), "unknown": b.get("unknown", 0)})
    return out


def wire_event(c, o):
    return {"wire": {"blocks": [norm_block(b, True) for b in o["wire"]["blocks"]]},
            "content": {"blocks": [norm_block(b, False) for b in c["blocks"]]},
            "base": c.get("base") or [],
            "lookups": [{"fact": norm_pred(l["fact"]), "got": l["got"]} for l in o.get("lookups", [])],
            "context": o.get("context", c["blocks"][0].get("context", "")),
            "nchecks": o.get("nchecks", [len(b.get("checks", [])) for b in c["blocks"]])}


def wire_text(c):
    return "token of %d block(s)%s: first block facts=%s rules=%d checks=%d" % (
        len(c["blocks"]), " sealed" if c.get("seal") else "", json.dumps(c["blocks"][0]["facts"])[:200],
        len(c["blocks"][0]["rules"]), len(c["blocks"][0]["checks"]))


@check("C07")
def c07(run):
    run.rule = ("L1: Symbols.tla models the interning mechanism (working table, SplitOff, Extend, default table, offset 1024) as a state "
                "machine and TLC proves EncodedWellFormed / DecodeIsContent / NoForwardReference for all histories of <=3 blocks x <=2(3) "
                "uses over 2 default + 3 fresh names. L3: generated caller-level contents (every term type, nested expressions, sets, default / "
                "fresh / shared symbols, 1-4 blocks, contexts, root key ids, sealing, intermediate reloads) are built with the real builders, "
                "serialized and decoded by the harness' independent protowire reader; TLC (TraceWire) checks WellFormed and Decode(wire) = "
                "content block for block with the specification's own default table and operator table. Round trip (Unmarshal: content, "
                "revocation ids, root key id, authorization, byte-identical re-serialization) and the version gate (blocks re-signed with "
                "version absent/0/1/2/4/2^32-1 must be rejected) are judged on the real library. Non-trivial = distinct contents with >=2 "
                "blocks or expressions.")
    run.assumptions = ["the independent reader implements pb/biscuit.proto by hand on protowire; protobuf encoding itself is trusted",
                       "set element order is irrelevant (compared as sets)"]
    driver = core.build_driver(run.work)
    r = core.tlc(run.work, "Symbols", "Symbols_thorough" if run.tier == "thorough" else "Symbols", timeout=1700)
    run.add_tlc(r, "L1 interning mechanism: well-formed + decodes to content")
    cases = gen_cases(run, driver, "wire")
    res = core.run_driver(driver, "wire", cases, per_case_timeout=120)
    events, idx = [], []
    for c in cases:
        o = res[c["id"]]
        nt = len(c["blocks"]) >= 2 or any(b["rules"] or b["checks"] for b in c["blocks"])
        run.count(c["id"] if nt else None)
        if o.get("crash"):
            run.report({"what": "crash"}, c, "wire", "process died: " + o.get("stderr", "")[-300:])
            continue
        if "harness" in o:
            raise Infra("wire harness: " + o["harness"])
        if "wire_error" in o:
            run.report({"what": o["wire_error"][:60]}, c, "wire", wire_text(c) + ": " + o["wire_error"])
            continue
        if o.get("roundtrip"):
            rc = confirm_case(driver, "wire", c, o, ("roundtrip",))
            run.report({"what": o["roundtrip"][0][:70]}, wp(c, rc), "wire", wire_text(c) + ": " + "; ".join(o["roundtrip"]), (lambda rc=rc: rc is not None))
        events.append(wire_event(c, o))
        idx.append(c)
    bad = validate_traces(run, "TraceWire", "TraceWire", events)
    for b in bad[:20]:
        c = idx[b]
        run.report({"what": "decoded wire content differs", "case": c["id"]}, c, "wire",
                   "TraceWire rejects: %s: independently decoded wire form is not well formed or does not decode to the caller's content; wire symbols=%s" % (
                       wire_text(c), [x["symbols"] for x in events[b]["wire"]["blocks"]]))
    # histories (siblings, seal, reload, GetBlockID) from the SymHeap generator: serialized bytes, reloaded content and
    # revocation ids of every token must stay what they were at creation (C07: "all build/append/seal/serialize/unmarshal sequences")
    foreign_stage(run, driver)
    corpus_stage(run, driver)
    hist = gen_cases(run, driver, "heap")[:600 if run.tier == "quick" else 6000]
    heap_expectations(run, hist)
    heap_stage(run, driver, hist, "history")
    run.sample({"content": wire_text(cases[3]), "wire_symbols_per_block": [b["symbols"] for b in events[3]["wire"]["blocks"]] if len(events) > 3 else None})


def replay_wire(run, body):
    driver = core.build_driver(run.work)
    c = dict(body["case"])
    o = run_one(driver, "wire", c)
    run.count("replay")
    run.count("replay2")
    if o.get("crash") or "wire_error" in o or o.get("roundtrip"):
        run.report(body["sig"], c, "wire", "replayed: %s" % (o.get("wire_error") or o.get("roundtrip") or "process died"))
        return
    ev = [wire_event(c, o)]
    if validate_traces(run, "TraceWire", "TraceWire", ev, chunks=1):
        run.report(body["sig"], c, "wire", "replayed: TraceWire rejects " + wire_text(c))


REPLAYERS["wire"] = replay_wire


# =============================================================== L3 for the chain: wire mutations abstracted into Chain terms

def chainmut_stage(run, driver, n, label="L3 wire mutation"):
    cases = [{"id": "m%d" % i, "seed": run.seed * 1000003 + i} for i in range(n)]
    res = core.run_driver(driver, "chainmut", cases, per_case_timeout=60)
    events, src = [], []
    for c in cases:
        o = res[c["id"]]
        if o.get("crash") or "tok" not in o:
            run.report({"what": "crash"}, c, "chainmut", "process died / harness error: " + json.dumps(o)[:300])
            continue
        run.count((o["desc"].split(" ")[0], o["desc"][:40], o["blocks"], o["accept"]))
        if o["stage"].startswith("PANIC"):
            rc = confirm_case(driver, "chainmut", c, o, ("desc", "stage"))
            run.report({"what": "panic", "mutation": o["desc"]}, wp(c, rc), "chainmut", "%s: mutation '%s' makes verification panic instead of rejecting: %s" % (label, o["desc"], o["stage"]),
                       (lambda rc=rc: rc is not None))
            continue
        events.append({"tok": o["tok"], "malformed": o["malformed"], "accept": o["accept"]})
        src.append((c, o))
    bad = validate_traces(run, "TraceChain", "TraceChain", events)
    for b in bad[:20]:
        c, o = src[b]
        rc = confirm_case(driver, "chainmut", c, o, ("desc", "accept"))
        run.report({"what": "accept" if o["accept"] else "reject", "mutation": o["desc"]}, wp(c, rc), "chainmut",
                   "%s: token mutated by '%s' is %s by the library (%s); Chain!Verify on its abstraction says %s. abstraction=%s" % (
                       label, o["desc"], "ACCEPTED" if o["accept"] else "rejected", o["stage"], "reject" if o["accept"] else "accept", json.dumps(o["tok"])[:400]),
                   (lambda rc=rc: rc is not None))
    if src:
        run.sample({"mutation": src[0][1]["desc"], "abstracted_token": src[0][1]["tok"], "library_accepts": src[0][1]["accept"]})


def replay_chainmut(run, body):
    driver = core.build_driver(run.work)
    c = dict(body["case"])
    o = run_one(driver, "chainmut", c)
    run.count("replay")
    run.count("replay2")
    if o.get("crash") or "tok" not in o or o["stage"].startswith("PANIC"):
        run.report(body["sig"], c, "chainmut", "replayed: " + json.dumps(o)[:300])
        return
    if validate_traces(run, "TraceChain", "TraceChain", [{"tok": o["tok"], "malformed": o["malformed"], "accept": o["accept"]}], chunks=1):
        run.report(body["sig"], c, "chainmut", "replayed: mutation '%s' -> library %s" % (o["desc"], "accepts" if o["accept"] else "rejects"))


REPLAYERS["chainmut"] = replay_chainmut


# =============================================================== C10 untrusted bytes (WireAdversary)

def adv_text(c):
    def kv(k):
        if k["v"].startswith("x:"):
            return "check if resource($x), %s   (postfix)" % expr_text(json.loads(k["v"][2:]))
        return "%s=%s" % (k["f"], k["v"])
    t = " + ".join(kv(k) for k in c["knobs"]) or ("conformance sample " + c["file"] if c.get("file") else "valid token")
    return t + (" + byte corruption #%d" % c["corrupt"] if c.get("corrupt") else "")


def adv_judge(c, o):
    if o.get("crash"):
        return ["the worker process died (panic outside the calling goroutine or fatal error): " + o.get("stderr", "")[:400].replace("\n", " | ")]
    if "panics" not in o:
        return ["driver: " + json.dumps(o)[:300]]
    bad = ["panic in " + p for p in o["panics"][:3]]
    if c.get("gated") and not c.get("corrupt") and not o["rejected"]:
        bad.append("token passes Unmarshal and verification although %s must be rejected by the decode-time gates" % adv_text(c))
    return bad


@check("C10", "exploration")
def c10(run):
    run.rule = ("WireAdversary.tla defines the adversarial input space: 17 fields of the envelope / block / Datalog messages with per-field "
                "boundary values (symbol and variable indexes 0..2^64-1, secret / key / signature lengths, empty oneofs, sets of bytes / "
                "mixed / nested / empty, variables in facts, ill-formed operator sequences, unbound head variables, versions, 0 or 40 "
                "blocks, duplicate / huge / invalid symbols ...); TLC enumerates every single value and every pair on different fields "
                "(5,784 cases), checks totality of the 13-operation panel and fixes the outcome for gate-guarded fields. Each case is "
                "encoded with a raw protowire writer, validly signed by an attacker root so evaluation is reached, and the panel "
                "(Unmarshal, String, Code, Serialize, GetBlockID, AuthorizerFor under 2 keys, Authorize with 3 authorizer contents, Query, "
                "Append, Seal, LoadPolicies) runs in an isolated worker; plus seeded byte-level corruptions (flip, truncate, duplicate "
                "slice, insert over-long varints, delete). Non-trivial = distinct cases (every one carries an adversarial value).")
    run.assumptions = ["'all byte strings' is sampled through spec-defined structured cases and seeded byte corruption, not enumerated",
                       "a recovered panic in any panel operation, or the death of the worker process, is the violation"]
    driver = core.build_driver(run.work)
    r = core.tlc(run.work, "WireAdversary", "WireAdversary_quick", deadlock=False)
    run.add_tlc(r, "L1 totality / gates over all single and pairwise adversarial cases + export")
    cases = []
    for i, c in enumerate(r.cases):
        cases.append({"id": "v%d" % i, "knobs": c["knobs"], "gated": c["gated"]})
    ncor = 4000 if run.tier == "quick" else 150000
    import random
    rnd = random.Random(run.seed)
    for i in range(ncor):
        base = rnd.choice(r.cases)["knobs"] if i % 3 == 0 else []
        cases.append({"id": "b%d" % i, "knobs": base, "gated": False, "corrupt": run.seed * 1000003 + i + 1})
    # expressions evaluated INSIDE a token: the operator sequences TLC enumerates for ExprMC (totality) and the expr family's
    # panels (every operator x operand pair, composed set expressions whose operands only exist at evaluation time) are encoded as
    # the check of an attacker-signed token; a panic there runs on the evaluation goroutine and kills the verifier
    rx = core.tlc(run.work, "ExprMC", "ExprMC_quick", timeout=3000)
    run.add_tlc(rx, "L1 Expr totality over all operator sequences + export (evaluated inside tokens)")
    xc = [c["ops"] for c in rx.cases] + [c["ops"] for c in gen_cases(run, driver, "expr") if not c["env"] and len(c["ops"]) <= 12]
    composed = [o for o in xc if len(o) >= 5]
    simple = [o for o in xc if len(o) < 5]
    rnd.shuffle(simple)
    if run.tier == "quick":
        simple = simple[:4000]
        rnd.shuffle(composed)
        composed = composed[:5000]
    for i, ops in enumerate(composed + simple):
        if any(o["k"] == "var" for o in ops):
            continue
        cases.append({"id": "x%d" % i, "knobs": [{"f": "check.expr", "v": "x:" + json.dumps(ops)}], "gated": False})
    pub, tcs = corpus_files()
    for i in range((1500 if run.tier == "quick" else 40000) if tcs else 0):
        t = tcs[i % len(tcs)]
        cases.append({"id": "c%d" % i, "knobs": [], "gated": False, "file": t["filename"], "rootpub": pub,
                      "corrupt": 0 if i < len(tcs) else run.seed * 7919 + i})
    res = core.run_driver(driver, "adv", cases, per_case_timeout=120)
    by_id = {c["id"]: c for c in cases}
    nrep = 0
    for c in cases:
        o = res[c["id"]]
        run.count(adv_text(c))
        bad = adv_judge(c, o)
        if bad and nrep < 30:
            nrep += 1
            rc = confirm_case(driver, "adv", c, o, ("panics", "rejected"), by_id)
            first = c["knobs"][0] if c["knobs"] else {"f": "bytes", "v": "corruption"}
            what = "panic" if ("panic" in bad[0] or "died" in bad[0]) else "gate"
            run.report({"what": what, "field": first["f"] + ("=" + first["v"] if what == "panic" and len(c["knobs"]) == 1 else "")}, rc, "adv",
                       "%s: %s" % (adv_text(c), "; ".join(bad)), (lambda rc=rc: rc is not None))
    run.traces += len(cases)
    run.sample({"case": adv_text(cases[100]), "must_be_rejected": cases[100]["gated"]})
    run.sample({"case": adv_text(cases[-1])})


def corpus_files():
    d = os.path.join(core.REPO, "samples", "data", "current")
    try:
        meta = json.load(open(os.path.join(d, "samples.json")))
    except (OSError, ValueError):
        return None, []
    return meta["root_public_key"], meta["testcases"]


def corpus_stage(run, driver):
    """the repository's conformance samples (written by the reference implementation) as foreign-encoder inputs"""
    pub, tcs = corpus_files()
    if not tcs:
        run.notes.append("no conformance samples found under /repo/samples: corpus stage skipped")
        return
    cases = [{"id": "s%d" % i, "file": t["filename"], "rootpub": pub} for i, t in enumerate(tcs)]
    res = core.run_driver(driver, "corpus", cases, per_case_timeout=60)
    for c, t in zip(cases, tcs):
        o = res[c["id"]]
        run.count("sample " + c["file"])
        if o.get("crash") or "bad" not in o:
            run.report({"what": "crash", "file": c["file"]}, c, "corpus", "conformance sample %s: %s" % (c["file"], json.dumps(o)[:300]))
            continue
        bad = list(o["bad"])
        if o["unmarshal"] and o.get("verifies") and all(v == 3 for v in o["versions"]):
            exp = [b["symbols"] for b in t["token"]]
            if o["symbols"] != exp:
                bad.append("independently decoded symbol tables %s differ from the ones documented for the sample %s" % (o["symbols"], exp))
        if bad:
            rc = confirm_case(driver, "corpus", c, o, ("bad",))
            run.report({"what": bad[0][:60], "file": c["file"]}, wp(c, rc), "corpus", "conformance sample %s: %s" % (c["file"], "; ".join(bad)), (lambda rc=rc: rc is not None))
    run.traces += len(cases)


def replay_corpus(run, body):
    driver = core.build_driver(run.work)
    c = dict(body["case"])
    o = run_one(driver, "corpus", c)
    run.count("replay")
    run.count("replay2")
    if o.get("crash") or o.get("bad"):
        run.report(body["sig"], c, "corpus", "replayed: %s" % (o.get("bad") or "process died"))


REPLAYERS["corpus"] = replay_corpus


def foreign_stage(run, driver):
    """valid tokens written by ANOTHER encoder (context omitted, other field order, 0 or 40 later blocks, root key ids)"""
    cases = []
    for f in ("no-context", "version-first", "no-context+version-first", "canonical"):
        for extra in ([], [{"f": "envelope.blocks", "v": "0"}], [{"f": "envelope.blocks", "v": "40"}], [{"f": "envelope.rootkeyid", "v": "0"}],
                      [{"f": "envelope.rootkeyid", "v": "2^32-1"}], [{"f": "block.extra", "v": "facts-500"}], [{"f": "block.extra", "v": "unknown-field"}]):
            cases.append({"id": "f%d" % len(cases), "knobs": [{"f": "foreign", "v": f}] + extra})
    res = core.run_driver(driver, "foreign", cases, per_case_timeout=120)
    for c in cases:
        o = res[c["id"]]
        run.count("foreign " + adv_text(c))
        bad = o.get("bad") if not o.get("crash") else ["process died: " + o.get("stderr", "")[-300:]]
        if bad is None:
            raise Infra("foreign driver: " + json.dumps(o)[:300])
        if bad:
            rc = confirm_case(driver, "foreign", c, o, ("bad",))
            run.report({"what": bad[0][:60], "encoding": c["knobs"][0]["v"]}, wp(c, rc), "foreign", "token written by another encoder (%s): %s" % (adv_text(c), "; ".join(bad)),
                       (lambda rc=rc: rc is not None))
    run.traces += len(cases)


def replay_foreign(run, body):
    driver = core.build_driver(run.work)
    c = dict(body["case"])
    o = run_one(driver, "foreign", c)
    run.count("replay")
    run.count("replay2")
    if o.get("crash") or o.get("bad"):
        run.report(body["sig"], c, "foreign", "replayed: %s" % (o.get("bad") or "process died"))


REPLAYERS["foreign"] = replay_foreign


def replay_adv(run, body):
    driver = core.build_driver(run.work)
    run.count("replay")
    run.count("replay2")
    for c, o in run_window(driver, "adv", body["case"]):
        bad = adv_judge(c, o)
        if bad:
            run.report(body["sig"], body["case"], "adv", "replayed: %s: %s" % (adv_text(c), "; ".join(bad)))
            return


REPLAYERS["adv"] = replay_adv


# =============================================================== Grammar (C14 C15)

def gram_text(c):
    return "%s: %s" % (c["kind"], " ".join(c["toks"])[:200])


def grammar_cases(run, with_err=True):
    t = "thorough" if run.tier == "thorough" else "quick"
    cases = []
    for cfg, what in (("Grammar_" + t, "L1 Denotes (postfix evaluates to the tree's value) over all expression trees + export"),
                      ("Grammar_wide", "L1 Denotes over all one-operator trees on the full leaf catalogue + export")):
        r = core.tlc(run.work, "Grammar", cfg, timeout=3000)
        run.add_tlc(r, what)
        for c in r.cases:
            cases.append({"kind": "expr", "toks": c["toks"], "ops": c["ops"]})
    r = core.tlc(run.work, "GrammarDeep", "GrammarDeep_thorough" if run.tier == "thorough" else "GrammarDeep", timeout=1700, seed=run.seed)
    run.add_tlc(r, "L1 Denotes on randomly drawn deep trees (nesting depth <= 4/5, redundant parentheses) + export")
    for c in r.cases:
        cases.append({"kind": "expr", "toks": c["toks"], "ops": c["ops"]})
    r = core.tlc(run.work, "GrammarElems", "GrammarElems", timeout=1700)
    run.add_tlc(r, "L1 element generator (terms, parameters, facts, rules, checks with or, policies, blocks, authorizers, error classes) + export")
    for c in r.cases:
        if c.get("experr") and not with_err:
            continue
        cases.append(c)
    for i, c in enumerate(cases):
        c["id"] = "g%d" % i
        c["layout"] = run.seed * 7919 + i
    return cases


def gram_stage(run, driver, cases, label):
    res = core.run_driver(driver, "grammar", cases, per_case_timeout=120)
    by_id = {c["id"]: c for c in cases}
    n = 0
    for c in cases:
        o = res[c["id"]]
        run.count(gram_text(c) + ("#%d" % c["corrupt"] if c.get("corrupt") else ""))
        bad = o.get("bad") if not o.get("crash") else ["process died: " + o.get("stderr", "")[-300:]]
        if bad is None:
            bad = ["driver: " + json.dumps(o)[:300]]
        if bad and n < 25:
            n += 1
            rc = confirm_case(driver, "grammar", c, o, ("bad",), by_id)
            what = "panic" if "PANIC" in bad[-1] else ("error-class" if c.get("experr") else bad[0][:40])
            run.report({"what": what, "kind": c["kind"], "why": c.get("why", "")}, rc, "grammar",
                       "%s %s%s -> %s" % (label, gram_text(c), " [" + c["why"] + "]" if c.get("why") else "", "; ".join(bad[:2])), (lambda rc=rc: rc is not None))
    run.traces += len(cases)


@check("C14")
def c14(run):
    run.rule = ("L1: Grammar.tla generates expression trees (exactly n operator nodes over a leaf catalogue) and renders them with exactly the "
                "parentheses the documented precedence/associativity table makes necessary (plus explicit redundant ones); TLC checks Denotes "
                "(the stack machine of Expr.tla on the expected postfix form yields the value of the tree) for all 17,175 (quick) trees with <=2 "
                "operators + all one-operator trees over 9 leaves. GrammarElems.tla generates facts / rules / checks with `or` / policies / blocks "
                "/ authorizers over 13 term forms (every term kind, parameters) with their denotation, and the documented error classes. "
                "L2: every token list is laid out with seeded whitespace and parsed by the six FromString* functions and a shared Parser; "
                "the returned structures must equal the denotation, error classes must be errors, every parsed element is added to a "
                "Builder, BlockBuilder and authorizer and evaluated; plus seeded token-level corruptions (drop / duplicate / swap / truncate / "
                "junk token) with oracle 'no panic'. Non-trivial = distinct texts.")
    run.assumptions = ["the grammar is a generator with a denotation, not a recogniser of all strings: outside it only 'no panic' is decided",
                       "lexer details (Unicode, exotic whitespace) are sampled through the corruption tokens only"]
    driver = core.build_driver(run.work)
    cases = grammar_cases(run)
    gram_stage(run, driver, cases, "L2")
    import random
    rnd = random.Random(run.seed)
    cor = []
    for i in range(6000 if run.tier == "quick" else 100000):
        b = rnd.choice(cases)
        cor.append(dict(b, id="x%d" % i, corrupt=run.seed * 1000003 + i + 1))
    gram_stage(run, driver, cor, "token-level corruption")
    run.sample({"text": gram_text(cases[1234]), "expected_postfix": cases[1234].get("ops")})
    run.sample({"text": gram_text(cases[-5]), "documented_error": cases[-5].get("why")})


@check("C15")
def c15(run):
    run.rule = ("Same generators as C14, restricted to the printable domain of the property (no string sets, error classes excluded). "
                "Every generated block -- and every generated expression wrapped in a check -- is parsed, placed BOTH in authority position "
                "and in a later block of a real token; the text printed by Code() (later block) and String() (authority block) is parsed "
                "back with FromStringBlock and must equal the original parse structurally, before and after Serialize/Unmarshal; the "
                "printed form must be identical before and after serialization. L1 as in C14 (Denotes).")
    run.assumptions = ["String()'s %v lists are only unambiguous for at most one fact, rule and check per block: larger blocks are inspected through Code() only"]
    driver = core.build_driver(run.work)
    cases = [dict(c, **{"print": True}) for c in grammar_cases(run, with_err=False)
             if c["kind"] in ("expr", "block", "rule", "check", "fact") and '"read"]' not in " ".join(c["toks"])
             # the property's printable domain: strings without quote, backslash or newline
             and not any(t.startswith('"') and ("\\" in t or "\n" in t) for t in c["toks"])]
    if run.tier == "quick":
        cases = [c for i, c in enumerate(cases) if c["kind"] != "expr" or i % 3 == run.seed % 3]
    gram_stage(run, driver, cases, "print round trip")
    run.sample({"text": gram_text(cases[777])})


def replay_grammar(run, body):
    driver = core.build_driver(run.work)
    run.count("replay")
    run.count("replay2")
    for c, o in run_window(driver, "grammar", body["case"]):
        if o.get("crash") or o.get("bad"):
            run.report(body["sig"], body["case"], "grammar", "replayed: %s -> %s" % (gram_text(c), o.get("bad") or "process died"))
            return


REPLAYERS["grammar"] = replay_grammar


# =============================================================== L3 for Authz: random first-order programs, validated by TLC

def authz_l3(run, driver, label="L3 random program"):
    cases = gen_cases(run, driver, "authz")
    res = core.run_driver(driver, "authz", cases, per_case_timeout=120)
    events, src = [], []
    nlater = 0
    for c in cases:
        o = res[c["id"]]
        if o.get("crash") or "obs" not in o:
            if "build_error" in o:
                continue
            if "harness" in o:
                raise Infra("authz harness: " + o["harness"][:400])
            run.report({"what": "crash"}, c, "authzgen", "%s: process died / harness error: %s" % (label, json.dumps(o)[:300]))
            continue
        ob = o["obs"]
        tok = c["toks"][0]
        events.append({"tok": {"auth": tok["auth"], "blocks": tok["blocks"]}, "az": c["script"][1]["az"],
                       "v": ob[2].get("v"), "world": ob[3].get("rows") or []})
        src.append((c, o))
        run.count((c["id"], ob[2].get("v")) if tok["blocks"] and c["script"][1]["az"]["p"] else None)
        # the documented workflow continues after Authorize: a query sees exactly the authority-level facts (validated by TLC
        # below), and a second Authorize gives the same outcome and leaves the same facts (only judged when the first
        # evaluation completed: ok / denied / nomatch)
        if run.prop in ("C03", "C12") and len(ob) >= 7 and ob[2].get("v") in ("ok", "denied", "nomatch"):
            later = []
            q = c["script"][4]["q"]
            exp = sorted(tuple(f[1:]) for f in rows(ob[3].get("rows")) if f[0] == q["b"][0][0] and len(f) == len(q["b"][0]))
            if ob[4].get("v") != "ok" or rows(ob[4].get("rows")) != exp:
                later.append("Query %s after Authorize = %s %s, the authority-level facts are %s" % (rule_text(q), ob[4].get("v"), rows(ob[4].get("rows")), exp))
            if vclass(ob[5].get("v")) != ob[2].get("v"):
                later.append("second Authorize = %s, first = %s" % (ob[5].get("v"), ob[2].get("v")))
            elif rows(ob[6].get("rows")) != rows(ob[3].get("rows")):
                later.append("authority-level facts after the second Authorize = %s, after the first = %s" % (rows(ob[6].get("rows")), rows(ob[3].get("rows"))))
            if later and nlater < 10:
                nlater += 1
                inst = {"auth": tok["auth"], "blocks": tok["blocks"], "az": c["script"][1]["az"]}
                rc = confirm_case(driver, "authz", c, o, ("obs",))
                run.report({"what": "after-authorize", "instance": inst_text(inst)[:200]}, wp(c, rc), "authzgen",
                           "%s (token via %s): %s: %s" % (label, tok["via"], inst_text(inst), "; ".join(later)), (lambda rc=rc: rc is not None))
    bad = validate_traces(run, "TraceAuthz", "TraceAuthz", events)
    for b in bad[:20]:
        c, o = src[b]
        tok = c["toks"][0]
        inst = {"auth": tok["auth"], "blocks": tok["blocks"], "az": c["script"][1]["az"]}
        rc = confirm_case(driver, "authz", c, o, ("obs",))
        run.report({"what": "verdict/closure", "instance": inst_text(inst)[:200]}, wp(c, rc), "authzgen",
                   "%s (token via %s): %s -> Authorize = %s, authority-level facts = %s; rejected by TraceAuthz (RefVerdict / Closure / Monotone)" % (
                       label, tok["via"], inst_text(inst), o["obs"][2].get("v"), rows(o["obs"][3].get("rows"))), (lambda rc=rc: rc is not None))
    if src:
        c = src[len(src) // 2][0]
        run.sample({"random_program": inst_text({"auth": c["toks"][0]["auth"], "blocks": c["toks"][0]["blocks"], "az": c["script"][1]["az"]})[:600],
                    "observed": src[len(src) // 2][1]["obs"][2].get("v")})


def replay_authzgen(run, body):
    driver = core.build_driver(run.work)
    c = dict(body["case"])
    o = run_one(driver, "authz", c)
    run.count("replay")
    run.count("replay2")
    if o.get("crash") or "obs" not in o:
        run.report(body["sig"], c, "authzgen", "replayed: " + json.dumps(o)[:300])
        return
    tok = c["toks"][0]
    ev = [{"tok": {"auth": tok["auth"], "blocks": tok["blocks"]}, "az": c["script"][1]["az"], "v": o["obs"][2].get("v"), "world": o["obs"][3].get("rows") or []}]
    if validate_traces(run, "TraceAuthz", "TraceAuthz", ev, chunks=1):
        run.report(body["sig"], c, "authzgen", "replayed: TraceAuthz rejects the observation")
    ob = o["obs"]
    if run.prop in ("C03", "C12") and len(ob) >= 7 and ob[2].get("v") in ("ok", "denied", "nomatch"):
        q = c["script"][4]["q"]
        exp = sorted(tuple(f[1:]) for f in rows(ob[3].get("rows")) if f[0] == q["b"][0][0] and len(f) == len(q["b"][0]))
        if ob[4].get("v") != "ok" or rows(ob[4].get("rows")) != exp or vclass(ob[5].get("v")) != ob[2].get("v") or rows(ob[6].get("rows")) != rows(ob[3].get("rows")):
            run.report(body["sig"], c, "authzgen", "replayed: query / second Authorize after Authorize disagree with the first evaluation")


REPLAYERS["authzgen"] = replay_authzgen


# =============================================================== selftest: the binding rejects corrupted observations

def selftest(run):
    """Not a registered check: demonstrates that each trace specification constrains the recorded fields --
    one field of a recorded event is corrupted and TLC must reject exactly that event."""
    import copy
    driver = core.build_driver(run.work)
    out = []

    def expect_bad(name, module, events, k):
        bad = validate_traces(run, module, module, events, chunks=1)
        ok = bad == [k]
        out.append((name, ok, bad))
        log("[selftest] %-28s corrupted event %d -> TLC rejects %s : %s" % (name, k, bad, "OK" if ok else "NOT BOUND"))

    # expressions: flip one limb of a recorded result
    g = gen_cases(run, driver, "expr")[:400]
    r = core.run_driver(driver, "expr", g)
    ev = [{"ops": c["ops"], "env": c["env"], "res": {k: v for k, v in r[c["id"]].items() if k in ("k", "v")}} for c in g]
    k = next(i for i, e in enumerate(ev) if e["res"]["k"] == "ok" and e["res"]["v"]["t"] == "bool")
    ev[k]["res"]["v"]["b"] = not ev[k]["res"]["v"]["b"]
    expect_bad("TraceExpr (result flipped)", "TraceExpr", ev, k)
    # engine: drop one derived fact
    g = [c for c in gen_cases(run, driver, "run")[:300]]
    evs, src = dl_events(run, driver, [], g)
    k = next(i for i, e in enumerate(evs) if e["obs"]["res"] == "ok" and len(e["obs"]["facts"]) > len(set(map(tuple, g[i]["facts"]))))
    evs[k]["obs"]["facts"] = evs[k]["obs"]["facts"][:-1]
    expect_bad("TraceDatalog (fact dropped)", "TraceDatalog", evs, k)
    # wire: GetBlockID result shifted, and a symbol renamed
    g = gen_cases(run, driver, "wire")[:60]
    r = core.run_driver(driver, "wire", g)
    evs = [wire_event(c, r[c["id"]]) for c in g]
    k = next(i for i, e in enumerate(evs) if e["lookups"])
    evs[k]["lookups"][0]["got"] += 1
    expect_bad("TraceWire (GetBlockID shifted)", "TraceWire", evs, k)
    evs = [wire_event(c, r[c["id"]]) for c in g]
    k = next(i for i, e in enumerate(evs) if e["wire"]["blocks"][0]["symbols"])
    evs[k]["wire"]["blocks"][0]["symbols"][0] += "_x"
    expect_bad("TraceWire (symbol renamed)", "TraceWire", evs, k)
    # chain: acceptance flipped
    cs = [{"id": "m%d" % i, "seed": 77 + i} for i in range(60)]
    r = core.run_driver(driver, "chainmut", cs)
    evs = [{"tok": r[c["id"]]["tok"], "malformed": r[c["id"]]["malformed"], "accept": r[c["id"]]["accept"]} for c in cs]
    evs[7]["accept"] = not evs[7]["accept"]
    expect_bad("TraceChain (accept flipped)", "TraceChain", evs, 7)
    # authz: verdict replaced
    g = gen_cases(run, driver, "authz")[:80]
    r = core.run_driver(driver, "authz", g)
    evs = []
    for c in g:
        ob = r[c["id"]]["obs"]
        evs.append({"tok": {"auth": c["toks"][0]["auth"], "blocks": c["toks"][0]["blocks"]}, "az": c["script"][1]["az"],
                    "v": ob[2].get("v"), "world": ob[3].get("rows") or []})
    k = next(i for i, e in enumerate(evs) if e["v"] in ("nomatch", "denied"))
    evs[k]["v"] = "ok"
    expect_bad("TraceAuthz (verdict -> ok)", "TraceAuthz", evs, k)
    failed = [n for n, ok, _ in out if not ok]
    if failed:
        raise Infra("selftest: trace specification does not constrain: %s" % failed)
    run.count("selftest-a")
    run.count("selftest-b")
    run.samples = [{"selftest": n, "rejected_exactly_the_corrupted_event": ok} for n, ok, _ in out]


CHECKS["selftest"] = (selftest, "other")
