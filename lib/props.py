"""Per-property checks. Each builds on core: L1 TLC on the spec, L2 spec->code replay, L3 code->spec traces."""
import json, os, subprocess, concurrent.futures as cf
import core
from core import Infra, log

CHECKS = {}
REPLAYERS = {}


def check(prop, level="model_checking"):
    def deco(fn):
        CHECKS[prop] = (fn, level)
        return fn
    return deco


def replay(run, body):
    fam = body["family"]
    REPLAYERS[fam](run, body)


def gen_cases(run, driver, family, tier=None):
    p = subprocess.run([driver, "gen", family, tier or run.tier, str(run.seed)], capture_output=True, text=True,
                       env=core.GOENV)
    if p.returncode != 0:
        raise Infra("driver gen %s failed: %s" % (family, p.stderr[-2000:]))
    return [json.loads(l) for l in p.stdout.splitlines() if l.strip()]


def validate_traces(run, module, cfg, events, chunks=None, timeout=1500):
    """Trace validation: events (list of dicts) are written as ndjson chunks, each validated by one TLC
    (workers=1: the trace spec is deterministic and linear).  Returns the list of global indexes TLC rejected."""
    if not events:
        return []
    chunks = chunks or min(4, max(1, len(events) // 4000))
    parts = [(k, events[k::chunks]) for k in range(chunks) if events[k::chunks]]

    def one(arg):
        k, evs = arg
        path = run.work.path("trace.%s.%d.ndjson" % (module, k))
        with open(path, "w") as f:
            for e in evs:
                f.write(json.dumps(e, separators=(",", ":")) + "\n")
        r = core.tlc(run.work, module, cfg, workers=1, env={"TRACE": path}, timeout=timeout, tag="%s.%d" % (cfg, k))
        bad = None
        for kind, payload in r.printed:
            if kind == "BAD":
                j = json.loads(payload)
                if j["n"] != len(evs):
                    raise Infra("trace length mismatch in %s: TLC saw %s of %d" % (module, j["n"], len(evs)))
                bad = j["bad"]
        if bad is None:
            raise Infra("trace spec %s did not reach the end of the trace (rejected prefix?)\n%s" % (module, r.out[-3000:]))
        return r, [k + chunks * (b - 1) for b in bad]
    out = []
    with cf.ThreadPoolExecutor(max_workers=min(len(parts), core.NCPU)) as ex:
        for r, bad in ex.map(one, parts):
            run.add_tlc(r, "trace validation " + module)
            out += bad
    run.traces += len(events)
    return sorted(out)


def canon(v):
    """canonical JSON text of a spec value (set elements sorted)"""
    if isinstance(v, dict):
        if v.get("t") == "set":
            return json.dumps({"t": "set", "e": sorted(canon(x) for x in v.get("e", []))})
        return json.dumps({k: canon(x) if isinstance(x, (dict, list)) else x for k, x in sorted(v.items())})
    if isinstance(v, list):
        return json.dumps([canon(x) for x in v])
    return json.dumps(v)


# =============================================================== C06 expressions

def _int_of(i):
    n = 0
    for l in reversed(i["m"]):
        n = n * 8192 + l
    return -n if i["neg"] else n


def val_text(v):
    t = v["t"]
    if t == "int":
        return str(_int_of(v["i"]))
    if t == "str":
        s = bytes(v["s"]).decode("utf-8", "replace")
        return json.dumps(s if len(s) < 40 else s[:10] + "...(%d)" % len(s))
    if t == "date":
        return "date:%d" % _int_of({"m": v["d"], "neg": False})
    if t == "bytes":
        return "hex:" + bytes(v["y"]).hex()
    if t == "bool":
        return "true" if v["b"] else "false"
    if t == "set":
        return "[" + ", ".join(val_text(x) for x in v["e"]) + "]"
    return "?"


def expr_text(ops):
    out = []
    for o in ops[:12]:
        out.append(val_text(o["v"]) if o["k"] == "val" else ("$%d" % o["n"] if o["k"] == "var" else o["o"]))
    return " ".join(out) + (" ...(%d ops)" % len(ops) if len(ops) > 12 else "")


def expr_sig(case, res):
    ops = case["ops"]
    return {"expr": expr_text(ops), "result": res.get("k")}


def expr_agrees(exp, obs):
    if obs.get("k") == "panic" or "k" not in obs:
        return False
    if exp["k"] == "any":
        return True
    if exp["k"] == "err":
        return obs["k"] == "err"
    return obs["k"] == "ok" and canon(exp["v"]) == canon(obs["v"])


def expr_report(run, driver, case, res, why):
    sig = expr_sig(case, res)

    def confirm():
        again = core.run_driver(driver, "expr", [dict(case)], nproc=1)[str(case["id"])]
        return again.get("k") == res.get("k") and canon(again.get("v")) == canon(res.get("v"))
    run.report(sig, {k: case[k] for k in ("id", "ops", "env")}, "expr",
               "%s: %s evaluates to %s%s" % (why, sig["expr"], res.get("k"),
                                            " " + val_text(res["v"]) if res.get("v") else " (" + str(res.get("msg", ""))[:120] + ")"),
               confirm)


@check("C06")
def c06(run):
    thorough = run.tier == "thorough"
    run.rule = ("L1: TLC enumerates every operator sequence of length<=N over a 15-value sample (totality) and the BigInt "
                "laws over all pairs of a 24-value 64-bit boundary pool; L2: each enumerated sequence replayed on "
                "(*Expression).Evaluate; L3: every binary operator x ordered pair and unary operator x value of a 63-value "
                "boundary pool plus seeded random well/ill-formed sequences, each recorded evaluation validated by TLC "
                "against Expr!Eval. Non-trivial = distinct (operator, operand types, outcome kind) combinations plus "
                "distinct operator sequences.")
    run.assumptions = ["regex semantics specified only for literal patterns with optional ^/$ anchors (others: no panic only)",
                       "strings are byte sequences; UTF-8 is not interpreted",
                       "sets with duplicate elements are an open corner (no panic only)"]
    driver = core.build_driver(run.work)
    r0 = core.tlc(run.work, "BigIntMC", "BigIntMC", workers=4)
    run.add_tlc(r0, "L1 BigInt laws")
    r1 = core.tlc(run.work, "ExprMC", "ExprMC_thorough" if thorough else "ExprMC_quick", timeout=3000)
    run.add_tlc(r1, "L1 totality + export")
    # L2
    cases = r1.cases
    for i, c in enumerate(cases):
        c["id"] = "m%d" % i
    res = core.run_driver(driver, "expr", cases)
    for c in cases:
        o = res[c["id"]]
        run.count(("L2", expr_text(c["ops"])))
        if not expr_agrees(c["exp"], o):
            expr_report(run, driver, c, o, "L2 spec says %s" % c["exp"]["k"])
    run.traces += len(cases)
    run.sample({"L2_case": expr_text(cases[len(cases) // 2]["ops"]), "expected": cases[len(cases) // 2]["exp"]["k"]})
    # L3
    gcases = gen_cases(run, driver, "expr")
    gres = core.run_driver(driver, "expr", gcases)
    events = []
    for c in gcases:
        o = gres[c["id"]]
        if "k" not in o:
            o = {"k": "panic", "msg": json.dumps(o)[:300]}
        events.append({"ops": c["ops"], "env": c["env"], "res": {k: v for k, v in o.items() if k in ("k", "v")}})
        top = c["ops"][-1] if c["ops"] else {"k": "empty"}
        tys = tuple(x["v"]["t"] for x in c["ops"][:2] if x["k"] == "val") if len(c["ops"]) <= 3 else ("seq", len(c["ops"]))
        run.count(("L3", top.get("o", top["k"]), tys, o["k"]))
    bad = validate_traces(run, "TraceExpr", "TraceExpr", events)
    for b in bad:
        expr_report(run, driver, gcases[b], gres[gcases[b]["id"]], "L3 trace event rejected by Expr!Eval")
    for k in (7, len(gcases) - 5):
        run.sample({"L3_event": expr_text(gcases[k]["ops"]), "observed": gres[gcases[k]["id"]].get("k")})
    run.extra["exhaustive"] = False
    run.extra["l3_events"] = len(events)


def replay_expr(run, body):
    driver = core.build_driver(run.work)
    c = dict(body["case"])
    o = core.run_driver(driver, "expr", [c], nproc=1)[str(c["id"])]
    if "k" not in o:
        o = {"k": "panic"}
    ev = [{"ops": c["ops"], "env": c["env"], "res": {k: v for k, v in o.items() if k in ("k", "v")}}]
    bad = validate_traces(run, "TraceExpr", "TraceExpr", ev, chunks=1)
    run.count("replay")
    if bad:
        run.report(expr_sig(c, o), c, "expr", "replayed: %s evaluates to %s" % (expr_text(c["ops"]), o.get("k")))


REPLAYERS["expr"] = replay_expr
