#!/bin/bash
# For one seeded change per driver family: apply it, run the check (expect VIOLATION + replay file), run --replay on the
# mutated tree (expect exit 1), undo the change, run --replay again (expect exit 0).  Validates the replay interface.
cd /verif
for pair in "$@"; do
  m=${pair%%:*}; p=${pair##*:}
  git -C /repo apply /verif/seeded/$m/patch.diff || { echo "$m: patch does not apply"; continue; }
  out=$(./check $p quick 2>/dev/null | grep '^VIOLATION' | head -3)
  n=$(echo "$out" | grep -c VIOLATION)
  f=$(echo "$out" | head -1 | sed 's/.*replay=//')
  r1=-; r0=-
  if [ -n "$f" ] && [ -f "$f" ]; then ./check --replay "$f" >/dev/null 2>&1; r1=$?; fi
  git -C /repo apply -R /verif/seeded/$m/patch.diff
  if [ -n "$f" ] && [ -f "$f" ]; then fam=$(python3 -c "import json;print(json.load(open('$f'))['family'])"); ./check --replay "$f" >/dev/null 2>&1; r0=$?; fi
  echo "$m on $p: $n+ violations, family=$fam, replay on changed tree rc=$r1 (want 1), on restored tree rc=$r0 (want 0)"
done
git -C /repo status --short | head -3
