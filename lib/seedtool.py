#!/usr/bin/env python3
"""Seeded-change bookkeeping.
  seedtool.py import <name> <prop> <worktree> <demo-relpath> "<needs>"   verify + store under /verif/seeded/<name>/ and remove worktree
  seedtool.py run <name> [tier] [prop...]                               apply to /repo, run checks, undo; prints detection summary
"""
import json, os, shutil, subprocess, sys, time
ROOT = os.path.dirname(os.path.dirname(os.path.abspath(__file__)))
SEEDED = os.path.join(ROOT, "seeded")
ENV = dict(os.environ, GOFLAGS="-mod=mod", GOPROXY="off", GOSUMDB="off", GOTOOLCHAIN="local")


def sh(cmd, cwd=None, check=False, timeout=1800):
    p = subprocess.run(cmd, shell=True, cwd=cwd, env=ENV, capture_output=True, text=True, timeout=timeout)
    if check and p.returncode != 0:
        raise SystemExit("FAILED: %s\n%s%s" % (cmd, p.stdout[-3000:], p.stderr[-3000:]))
    return p


def suite(wt, tries=4):
    """whole suite; the repo's own tests flake on the 2ms default budget under load, so retry failures that are timeouts"""
    last = None
    for _ in range(tries):
        p = sh("go test -count=1 -p 2 ./... 2>&1", cwd=wt)
        last = p
        if p.returncode == 0:
            return True, ""
        if "timeout" not in p.stdout:
            break
    return False, last.stdout[-1500:]


def do_import(name, prop, wt, demo, needs):
    d = os.path.join(SEEDED, name)
    os.makedirs(d, exist_ok=True)
    patch = sh("git diff -- . ':!%s'" % demo, cwd=wt, check=True).stdout
    if not patch.strip():
        raise SystemExit("empty patch in " + wt)
    open(os.path.join(d, "patch.diff"), "w").write(patch)
    shutil.copy(os.path.join(wt, demo), os.path.join(d, os.path.basename(demo)))
    pkg = "./" + os.path.dirname(demo) if os.path.dirname(demo) else "."
    ran = []
    # 1. demo fails with the change
    p1 = None
    for _ in range(3):
        p1 = sh("go test -count=1 -run 'Demo|ZZ' %s 2>&1" % pkg, cwd=wt)
        if p1.returncode != 0:
            break
    ran.append("with change: go test -run 'Demo|ZZ' %s -> rc=%d" % (pkg, p1.returncode))
    # 2. demo passes without
    sh("git apply -R %s" % os.path.join(d, "patch.diff"), cwd=wt, check=True)
    p2 = None
    for _ in range(4):
        p2 = sh("go test -count=1 -run 'Demo|ZZ' %s 2>&1" % pkg, cwd=wt)
        if p2.returncode == 0:
            break
    ran.append("without change: same -> rc=%d" % p2.returncode)
    sh("git apply %s" % os.path.join(d, "patch.diff"), cwd=wt, check=True)
    # 3. suite passes with the change (demo moved out)
    tmp = os.path.join(d, "_demo_tmp")
    shutil.move(os.path.join(wt, demo), tmp)
    ok, tail = suite(wt)
    os.remove(tmp)
    ran.append("with change, demo removed: go test ./... -> %s" % ("pass" if ok else "FAIL"))
    good = p1.returncode != 0 and p2.returncode == 0 and ok
    meta = {"name": name, "property": prop, "needs": needs, "demo": os.path.basename(demo), "demo_path": demo,
            "confirmed": good, "ran": ran, "base_commit": sh("git rev-parse HEAD", cwd=wt).stdout.strip(), "detected_by": {}}
    json.dump(meta, open(os.path.join(d, "meta.json"), "w"), indent=1)
    print(name, "confirmed" if good else "NOT CONFIRMED", ran)
    if not good:
        print(p1.stdout[-800:], "\n---\n", p2.stdout[-800:], "\n---\n", tail)
    sh("git -C /repo worktree remove --force %s" % wt)
    return good


def do_run(name, tier, props):
    d = os.path.join(SEEDED, name)
    meta = json.load(open(os.path.join(d, "meta.json")))
    props = props or [meta["property"]]
    # the change is applied to a scratch worktree of /repo's HEAD (never to /repo itself); the checks are pointed at it
    wt = "/tmp/seedwt_%s_%d" % (name, os.getpid())
    sh("git -C /repo worktree add -q --detach %s HEAD" % wt, check=True)
    sh("git -C %s apply %s" % (wt, os.path.join(d, "patch.diff")), check=True)
    out = {}
    try:
        for p in props:
            t0 = time.time()
            r = sh("VERIF_REPO=%s ./check %s %s" % (wt, p, tier), cwd=ROOT, timeout=7200)
            viol = [l for l in r.stdout.splitlines() if l.startswith("VIOLATION")]
            out[p] = {"rc": r.returncode, "violations": len(viol), "wall_s": round(time.time() - t0)}
            print("%s on %s %s: rc=%d, %d VIOLATION lines, %.0fs" % (name, p, tier, r.returncode, len(viol), time.time() - t0))
            if r.returncode not in (0, 1):
                print(r.stderr[-1500:])
            elif viol:
                txt = [l for l in r.stderr.splitlines() if "violation:" in l]
                print("   e.g.", (txt[0] if txt else "")[:300])
    finally:
        sh("git -C /repo worktree remove --force %s" % wt)
    meta.setdefault("detected_by", {})
    for p, v in out.items():
        meta["detected_by"]["%s/%s" % (p, tier)] = v
    json.dump(meta, open(os.path.join(d, "meta.json"), "w"), indent=1)


if __name__ == "__main__":
    a = sys.argv[1:]
    if a[0] == "import":
        do_import(a[1], a[2], a[3], a[4], a[5] if len(a) > 5 else "")
    elif a[0] == "run":
        tier = a[2] if len(a) > 2 else "quick"
        do_run(a[1], tier, a[3:])


def do_reverify(name):
    d = os.path.join(SEEDED, name)
    meta = json.load(open(os.path.join(d, "meta.json")))
    wt = "/tmp/mut/rv_" + name
    sh("git -C /repo worktree add -q --detach %s %s" % (wt, meta["base_commit"]), check=True)
    try:
        sh("git apply %s" % os.path.join(d, "patch.diff"), cwd=wt, check=True)
        ok, tail = suite(wt, tries=8)
        print(name, "suite with change:", "pass" if ok else "FAIL\n" + tail)
        if ok:
            meta["ran"][-1] = "with change, demo removed: go test ./... -> pass (re-verified; earlier failures were the suite's 2 ms timeout flake under load)"
            meta["confirmed"] = True
            json.dump(meta, open(os.path.join(d, "meta.json"), "w"), indent=1)
    finally:
        sh("git -C /repo worktree remove --force %s" % wt)


if __name__ == "__main__" and sys.argv[1] == "reverify":
    for n in sys.argv[2:]:
        do_reverify(n)
