#!/bin/sh
# Build the framework from files on disk only (offline): warm the Go build cache with the conformance
# driver and make sure every TLA+ module parses.
set -e
cd "$(dirname "$0")"
export GOFLAGS=-mod=mod GOPROXY=off GOSUMDB=off GOTOOLCHAIN=local
mkdir -p .work evidence
cp /repo/go.sum harness/go.sum
(cd harness && go build -tags verif -o ../.work/driver.setup . && go build -race -tags verif -o ../.work/driver-race.setup . ) 
rm -f .work/driver.setup .work/driver-race.setup
d=$(mktemp -d "$PWD/.work/sany.XXXXXX")
cp spec/*.tla "$d"/
fail=0
for f in "$d"/*.tla; do
  if ! (cd "$d" && java -cp /opt/veriftools/tla/tla2tools.jar:/opt/veriftools/tla/CommunityModules-deps.jar tla2sany.SANY "$(basename "$f")" > "$f.out" 2>&1) || grep -q "^\*\*\* Errors\|Fatal errors\|Could not parse" "$f.out"; then
    echo "SANY failed on $(basename "$f")"; tail -20 "$f.out"; fail=1
  fi
done
rm -rf "$d"
[ $fail = 0 ] && echo "setup ok"
exit $fail
