-------------------------------- MODULE Authz --------------------------------
(***************************************************************************)
(* The Biscuit authorizer.                                                 *)
(*                                                                         *)
(*   block      : [f |-> <<facts>>, r |-> <<rules>>, c |-> <<checks>>]     *)
(*   check      : <<queries>>   (a disjunction; a query is a rule whose    *)
(*                              head is irrelevant)                        *)
(*   token      : [auth |-> block, blocks |-> <<blocks>>]                  *)
(*   policy     : [kind |-> "allow" | "deny", q |-> <<queries>>]           *)
(*   authorizer : [f, r, c as in a block, p |-> <<policies>>]  (ordered)   *)
(*                                                                         *)
(* Part 1 is the DECLARATIVE decision procedure of the property (C04).     *)
(* Part 2 transcribes Authorizer.Authorize step by step (one operator per  *)
(* step of authorizer.go), threading the authorizer state explicitly.      *)
(* TLC checks that part 2 computes part 1 and the relational properties    *)
(* C02 / C03 / C12 over all instances of bounded catalogues (AuthzMC).     *)
(***************************************************************************)
EXTENDS Datalog

Classes == {"ok", "denied", "nomatch", "checkfail", "other"}

Q(b, g) == [h |-> <<99>>, b |-> b, g |-> g]
R(h, b, g) == [h |-> h, b |-> b, g |-> g]
EmptyBlock == [f |-> <<>>, r |-> <<>>, c |-> <<>>]

CheckHolds(c, F) == \E i \in 1..Len(c) : Holds(c[i], F)
AllHold(cs, F) == \A i \in 1..Len(cs) : CheckHolds(cs[i], F)

-----------------------------------------------------------------------------
(* Part 1: declarative semantics                                           *)

AuthFacts(tok, az) == SeqSet(az.f) \cup SeqSet(tok.auth.f)
AuthRules(tok, az) == az.r \o tok.auth.r
\* authority-level closure: what authorizer + authority block facts and rules derive
Closure(tok, az) == Lfp(AuthFacts(tok, az), AuthRules(tok, az))
\* scope of later block i: that closure plus the block's own facts and rules
BlockClosure(tok, az, i) == Lfp(Closure(tok, az) \cup SeqSet(tok.blocks[i].f), tok.blocks[i].r)

\* run limits carried by the authorizer (and by every per-block world): [mf |-> maxFacts, mi |-> maxIterations]
NoLimit == [mf |-> 1000000, mi |-> 1000000]
LimOf(az) == IF "lim" \in DOMAIN az THEN az.lim ELSE NoLimit
\* status of one evaluation under the limits: "fail" = must be refused, "ok" = must complete, "either" = a limit is reached exactly
RunStatus(F, RR, lim) ==
    IF RunFails(F, RR) THEN "fail"
    ELSE LET k == Rounds(F, RR) n == Cardinality(Lfp(F, RR)) IN
         IF k > lim.mi \/ n > lim.mf THEN "fail"
         ELSE IF k = lim.mi \/ n = lim.mf THEN "either" ELSE "ok"
RunStatuses(tok, az) ==
    {RunStatus(AuthFacts(tok, az), AuthRules(tok, az), LimOf(az))}
    \cup {RunStatus(Closure(tok, az) \cup SeqSet(tok.blocks[i].f), tok.blocks[i].r, LimOf(az)) : i \in 1..Len(tok.blocks)}
EvalFails(tok, az) == "fail" \in RunStatuses(tok, az)
EvalMayFail(tok, az) == "either" \in RunStatuses(tok, az)

ChecksOK(tok, az) ==
    /\ AllHold(az.c, Closure(tok, az))
    /\ AllHold(tok.auth.c, Closure(tok, az))
    /\ \A i \in 1..Len(tok.blocks) : AllHold(tok.blocks[i].c, BlockClosure(tok, az, i))

PolicyMatches(p, F) == \E j \in 1..Len(p.q) : Holds(p.q[j], F)
FirstMatch(ps, F) == IF \E i \in 1..Len(ps) : PolicyMatches(ps[i], F)
                     THEN ps[CHOOSE i \in 1..Len(ps) : PolicyMatches(ps[i], F) /\ \A j \in 1..(i - 1) : ~PolicyMatches(ps[j], F)].kind
                     ELSE "none"

\* the set of outcome classes the property allows (a singleton unless evaluation itself fails)
RefVerdict(tok, az) ==
    IF EvalFails(tok, az) THEN {"other", "checkfail"}
    ELSE (IF EvalMayFail(tok, az) THEN {"other", "checkfail"} ELSE {})
         \cup (IF ~ChecksOK(tok, az) THEN {"checkfail"}
               ELSE LET k == FirstMatch(az.p, Closure(tok, az))
                    IN {CASE k = "allow" -> "ok" [] k = "deny" -> "denied" [] OTHER -> "nomatch"})

-----------------------------------------------------------------------------
(* Part 2: the procedure of Authorizer.Authorize.  State:                  *)
(*   [world, rules, failed, pol, bw, err]                                  *)
(* CloneBlockWorld / ResetRulesBeforeBlocks / PoliciesBeforeBlocks are the *)
(* mechanisms the anchors name; switching one off gives a negative model.  *)

CONSTANTS CloneBlockWorld, ResetRulesBeforeBlocks, PoliciesBeforeBlocks

S0(az) == [world |-> SeqSet(az.f), rules |-> az.r, failed |-> {}, pol |-> "none", bw |-> <<>>, err |-> FALSE, lim |-> LimOf(az)]

LoadAuthority(s, tok) == [s EXCEPT !.world = @ \cup SeqSet(tok.auth.f), !.rules = @ \o tok.auth.r]
\* World.Run as coded: the loop runs i < maxIterations (k productive rounds need k+1 iterations) and stops at >= maxFacts
HitsLimit(F, RR, lim) == Rounds(F, RR) >= lim.mi \/ Cardinality(Lfp(F, RR)) >= lim.mf
RunWorld(s) == IF RunFails(s.world, s.rules) \/ HitsLimit(s.world, s.rules, s.lim) THEN [s EXCEPT !.err = TRUE]
               ELSE [s EXCEPT !.world = Lfp(@, s.rules)]
FailedOf(cs, F, tag) == {<<tag, i>> : i \in {i \in 1..Len(cs) : ~CheckHolds(cs[i], F)}}
AzChecks(s, az) == [s EXCEPT !.failed = @ \cup FailedOf(az.c, s.world, 0 - 1)]
AuthChecks(s, tok) == [s EXCEPT !.failed = @ \cup FailedOf(tok.auth.c, s.world, 0)]
Policies(s, az) == [s EXCEPT !.pol = FirstMatch(az.p, s.world)]
ResetRules(s) == IF ResetRulesBeforeBlocks THEN [s EXCEPT !.rules = <<>>] ELSE s

\* one later block: private copy of the world (or, in the negative model, the shared world)
BlockStep(s, tok, i) ==
    LET b  == tok.blocks[i]
        w0 == s.world \cup SeqSet(b.f)
        rs == s.rules \o b.r
    IN IF RunFails(w0, rs) \/ HitsLimit(w0, rs, s.lim) THEN [s EXCEPT !.err = TRUE]      \* the block world inherits the limits
       ELSE LET w1 == Lfp(w0, rs)
            IN [s EXCEPT !.failed = @ \cup FailedOf(b.c, w1, i),
                         !.bw = Append(@, w1),
                         !.world = IF CloneBlockWorld THEN @ ELSE w1]

RECURSIVE Blocks(_, _, _)
Blocks(s, tok, i) == IF i > Len(tok.blocks) \/ s.err THEN s ELSE Blocks(BlockStep(s, tok, i), tok, i + 1)

Proc(tok, az) ==
    LET s1 == RunWorld(LoadAuthority(S0(az), tok))
    IN IF s1.err THEN s1
       ELSE LET s2 == AuthChecks(AzChecks(s1, az), tok)
                s3 == IF PoliciesBeforeBlocks THEN Policies(s2, az) ELSE s2
                s4 == Blocks(ResetRules(s3), tok, 1)
            IN IF s4.err THEN s4
               ELSE IF PoliciesBeforeBlocks THEN s4 ELSE Policies(s4, az)

VerdictOf(s) == IF s.err THEN "other"
                ELSE IF s.failed # {} THEN "checkfail"
                ELSE CASE s.pol = "allow" -> "ok" [] s.pol = "deny" -> "denied" [] OTHER -> "nomatch"
Verdict(tok, az) == VerdictOf(Proc(tok, az))

-----------------------------------------------------------------------------
(* token surgery used by the relational properties                          *)
AppendBlock(tok, b) == [tok EXCEPT !.blocks = Append(@, b)]
\* block i reduced to its checks
StripBlock(tok, i) == [tok EXCEPT !.blocks[i] = [f |-> <<>>, r |-> <<>>, c |-> @.c]]
\* everything observable except the outcome of block i's own checks
Components(tok, az, i) ==
    LET s == Proc(tok, az)
    IN [err |-> s.err, failed |-> {x \in s.failed : x[1] # i}, pol |-> s.pol,
        world |-> IF s.err THEN {} ELSE s.world]
=============================================================================
