------------------------------- MODULE AuthzMC -------------------------------
(* Instance enumeration for Authz: a token T (authority block), one later    *)
(* block B and an authorizer A are chosen from small catalogues (every       *)
(* combination); TLC checks the theorems behind C02, C03, C04, C12 on each   *)
(* instance and exports it with the expected observations for replay.        *)
EXTENDS Authz, TLC, Json

CONSTANTS Depth,   \* 1 = small catalogues, 2 = richer catalogues
          AzSmall,  \* TRUE: the authorizer draws facts/rules/checks from the first catalogue entry only
          NB,       \* number of later blocks (1 or 2); with 2 the authority block and the authorizer are kept small
          WithLimits, \* TRUE: every instance additionally ranges over the limit catalogue (smaller block-2 catalogue)
          Sample    \* 0 = every instance; N > 0 = 16 lanes of N randomly drawn instances each

\* predicates: 0 = a/1, 1 = b/1, 2 = g/0; constants 0, 1; variable x = -1
G(o, l, r) == [o |-> o, l |-> l, r |-> r]
FactCat == << <<0, 0>>, <<0, 1>>, <<1, 0>> >> \o (IF Depth > 1 THEN << <<1, 1>>, <<2>> >> ELSE <<>>)
RuleCat == << R(<<1, -1>>, << <<0, -1>> >>, <<>>),                   \* b(x) <- a(x)
              R(<<0, 1>>, << <<1, 0>> >>, <<>>) >>                    \* a(1) <- b(0)
           \o (IF Depth > 1 THEN << R(<<2>>, << <<0, -1>>, <<1, -1>> >>, <<>>),          \* g() <- a(x), b(x)
                                    R(<<0, -1>>, << <<1, -1>> >>, << G("eq", -1, 1) >>), \* a(x) <- b(x), x == 1
                                    R(<<1, 1>>, << <<0, 0>> >>, << G("E", 0, 0) >>) >>    \* failing expression
               ELSE <<>>)
CheckCat == << << Q(<< <<0, 0>> >>, <<>>) >>,                                      \* check if a(0)
               << Q(<< <<1, -1>>, <<0, -1>> >>, <<>>), Q(<< <<1, 1>> >>, <<>>) >> >> \* check if b(x), a(x) or b(1)
            \o (IF Depth > 1 THEN << << Q(<< <<0, -1>> >>, << G("ne", -1, 0) >>) >>,   \* check if a(x), x != 0
                                     << Q(<< <<2>> >>, <<>>) >>,                       \* check if g()
                                     << Q(<< <<0, -1>> >>, << G("E", 0, 0) >>) >> >>   \* uniformly failing expression
                ELSE <<>>)
PolCat == << [kind |-> "allow", q |-> << Q(<< <<0, 1>> >>, <<>>) >>],             \* allow if a(1)
             [kind |-> "deny",  q |-> << Q(<< <<1, 0>> >>, <<>>) >>],             \* deny if b(0)
             [kind |-> "allow", q |-> << Q(<<>>, <<>>) >>] >>                      \* allow if true
          \o (IF Depth > 1 THEN << [kind |-> "deny", q |-> << Q(<< <<1, 1>> >>, <<>>), Q(<< <<2>> >>, <<>>) >>],  \* deny if b(1) or g()
                                   [kind |-> "allow", q |-> << Q(<< <<1, -1>> >>, << G("E", 0, 0) >>) >>] >>       \* failing expression
              ELSE <<>>)

Opt(cat, i) == IF i = 0 THEN <<>> ELSE <<cat[i]>>
BlockOf(sel) == [f |-> Opt(FactCat, sel.f), r |-> Opt(RuleCat, sel.r), c |-> Opt(CheckCat, sel.c)]
Sel == [f : 0..Len(FactCat), r : 0..Len(RuleCat), c : 0..Len(CheckCat)]
PolLists == {<<>>} \cup {<<i>> : i \in 1..Len(PolCat)} \cup {<<i, j>> : i, j \in 1..Len(PolCat)}

SelZ == IF AzSmall THEN [f : 0..1, r : 0..1, c : 0..1] ELSE Sel
SelA == IF AzSmall THEN [f : 0..Len(FactCat), r : 0..Len(RuleCat), c : 0..1] ELSE Sel

VARIABLES sa, sb, sb2, sz, pl, pad, lim, phase, lane
vars == <<sa, sb, sb2, sz, pl, pad, lim, phase, lane>>
\* run limits given to the authorizer (0 = none); with NB = 3 ("limits" configuration) they are placed around what the small
\* programs need (1-2 productive rounds, 2-4 facts)
LimCat == << [mf |-> 1000000, mi |-> 1], [mf |-> 1000000, mi |-> 2], [mf |-> 3, mi |-> 1000000], [mf |-> 2, mi |-> 2] >>
Lims == IF WithLimits THEN 1..Len(LimCat) ELSE {0}
\* `pad` unrelated authorizer facts c(0..pad-1) vary the SIZE of the authority-level fact list, so that the real
\* slice behind it is exercised both with and without spare capacity when block worlds are copied from it
PadFacts == << <<3, 0>>, <<3, 1>>, <<3, 2>> >>
Pads == IF NB = 2 /\ ~WithLimits THEN {0, 3} ELSE {0}
None == [f |-> 0, r |-> 0, c |-> 0]
Sel2 == IF NB = 2 THEN (IF WithLimits THEN [f : 0..1, r : 0..1, c : 0..1] ELSE Sel) ELSE {None}
SelA2 == [f : 0..Len(FactCat), r : {0}, c : {0}]
SelZ2 == [f : 0..1, r : {0}, c : {0}]
PolLists2 == {<<3>>, <<2, 3>>}
Init == IF Sample = 0
        THEN /\ sa \in (IF NB = 2 THEN SelA2 ELSE SelA) /\ sb \in Sel /\ sb2 \in Sel2
             /\ sz \in (IF NB = 2 THEN SelZ2 ELSE SelZ) /\ pl \in (IF NB = 2 THEN PolLists2 ELSE PolLists)
             /\ pad \in Pads /\ lim \in Lims /\ phase = 0 /\ lane = 0
        ELSE /\ lane \in 1..16 /\ phase = 1
             /\ sa = RandomElement(Sel) /\ sb = RandomElement(Sel) /\ sb2 = RandomElement(Sel2)
             /\ sz = RandomElement(SelZ) /\ pl = RandomElement(PolLists) /\ pad = RandomElement(0..3) /\ lim = 0
Next == IF Sample = 0
        THEN phase = 0 /\ phase' = 1 /\ UNCHANGED <<sa, sb, sb2, sz, pl, pad, lim, lane>>
        ELSE /\ phase < Sample /\ phase' = phase + 1 /\ UNCHANGED lane
             /\ sa' = RandomElement(Sel) /\ sb' = RandomElement(Sel) /\ sb2' = RandomElement(Sel2)
             /\ sz' = RandomElement(SelZ) /\ pl' = RandomElement(PolLists) /\ pad' = RandomElement(0..3) /\ lim' = 0
Spec == Init /\ [][Next]_vars

T  == [auth |-> BlockOf(sa), blocks |-> <<>>]
B  == BlockOf(sb)
B2 == BlockOf(sb2)
TB == AppendBlock(T, B)
Full == IF NB = 2 THEN AppendBlock(TB, B2) ELSE TB
\* the tokens obtained by successive attenuation: T, T+B, (T+B+B2)
Prefixes == IF NB = 2 THEN <<T, TB, Full>> ELSE <<T, TB>>
A  == LET z == BlockOf(sz)
          base == [f |-> z.f \o SubSeq(PadFacts, 1, pad), r |-> z.r, c |-> z.c, p |-> [i \in 1..Len(pl) |-> PolCat[pl[i]]]]
      IN IF lim = 0 THEN base ELSE base @@ [lim |-> LimCat[lim]]

Ready == phase >= 1
NP == Len(Prefixes)
\* C04: the procedure computes the declarative decision
ProcIsRef == Ready => \A k \in 1..NP : Verdict(Prefixes[k], A) \in RefVerdict(Prefixes[k], A)
\* C02: attenuation only restricts
Monotone == Ready => \A k \in 2..NP : (Verdict(Prefixes[k], A) = "ok" => Verdict(Prefixes[k - 1], A) = "ok")
\* C03: facts and rules of a later block reach nothing but that block's own checks; authority-level facts are visible to it
\* (a block whose own rules cannot be evaluated makes the whole authorization fail: that is a refusal, covered by C02)
Scoped == Ready /\ ~Proc(Full, A).err =>
             \A i \in 1..NB : Components(Full, A, i) = Components(StripBlock(Full, i), A, i)
Visible == Ready => LET s == Proc(Full, A) IN
             (~s.err => /\ s.world = Closure(Full, A)
                        /\ \A i \in 1..NB : Closure(Full, A) \subseteq s.bw[i] /\ s.bw[i] = BlockClosure(Full, A, i))
\* the world left behind is the authority-level closure, whatever the later blocks contain
SameWorld == Ready => LET s == Proc(Full, A) t == Proc(T, A) IN (~s.err /\ ~t.err => s.world = t.world)
\* C03: the order of later blocks is irrelevant (outcome of each block's checks travels with the block)
Swapped == [Full EXCEPT !.blocks = <<Full.blocks[2], Full.blocks[1]>>]
Swap(x) == IF x[1] = 1 THEN <<2, x[2]>> ELSE IF x[1] = 2 THEN <<1, x[2]>> ELSE x
OrderFree == Ready /\ NB = 2 => LET s == Proc(Full, A) t == Proc(Swapped, A) IN
               /\ Verdict(Full, A) \in RefVerdict(Swapped, A)
               /\ (~s.err /\ ~t.err => s.world = t.world /\ s.pol = t.pol /\ s.failed = {Swap(x) : x \in t.failed}
                                         /\ s.bw[1] = t.bw[2] /\ s.bw[2] = t.bw[1])

SetSeq(S) == LET RECURSIVE f(_) f(X) == IF X = {} THEN <<>> ELSE LET x == CHOOSE x \in X : TRUE IN <<x>> \o f(X \ {x}) IN f(S)
Export == Ready =>
    LET s == Proc(Full, A) t == Proc(T, A) IN
    PrintT(<<"CASE", ToJson([auth |-> T.auth, blocks |-> Full.blocks, az |-> A,
                              vs |-> [k \in 1..NP |-> RefVerdict(Prefixes[k], A)],
                              world |-> IF t.err THEN <<>> ELSE SetSeq(t.world), werr |-> t.err,
                              bws |-> IF s.err THEN <<>> ELSE [i \in 1..NB |-> SetSeq(s.bw[i])], berr |-> s.err])>>)
=============================================================================
