------------------------------- MODULE BigInt -------------------------------
(***************************************************************************)
(* Exact integer arithmetic for the specification.  TLC integers are       *)
(* 32-bit, the library's are 64-bit, so integers are modelled as           *)
(* sign + magnitude, the magnitude being a little-endian sequence of       *)
(* limbs in base 2^13 (limb products stay below 2^26).  Normal form: no    *)
(* most-significant zero limb; zero is <<>> with neg = FALSE.              *)
(***************************************************************************)
EXTENDS Integers, Sequences

B == 8192

RECURSIVE TrimM(_)
TrimM(m) == IF m # <<>> /\ m[Len(m)] = 0 THEN TrimM(SubSeq(m, 1, Len(m) - 1)) ELSE m

IsMag(m) == /\ \A i \in 1..Len(m) : m[i] \in 0..(B - 1)
            /\ (m # <<>> => m[Len(m)] # 0)

Limb(m, i) == IF i <= Len(m) THEN m[i] ELSE 0

\* -1 / 0 / 1 for magnitudes
RECURSIVE CmpFrom(_, _, _)
CmpFrom(a, b, i) == IF i = 0 THEN 0
                    ELSE IF a[i] < b[i] THEN -1
                    ELSE IF a[i] > b[i] THEN 1
                    ELSE CmpFrom(a, b, i - 1)
CmpM(a, b) == IF Len(a) < Len(b) THEN -1
              ELSE IF Len(a) > Len(b) THEN 1
              ELSE CmpFrom(a, b, Len(a))

RECURSIVE AddFrom(_, _, _, _, _)
AddFrom(a, b, i, carry, n) ==
    IF i > n THEN (IF carry = 0 THEN <<>> ELSE <<carry>>)
    ELSE LET s == Limb(a, i) + Limb(b, i) + carry
         IN <<s % B>> \o AddFrom(a, b, i + 1, s \div B, n)
AddM(a, b) == TrimM(AddFrom(a, b, 1, 0, IF Len(a) > Len(b) THEN Len(a) ELSE Len(b)))

\* a - b for CmpM(a, b) >= 0
RECURSIVE SubFrom(_, _, _, _)
SubFrom(a, b, i, borrow) ==
    IF i > Len(a) THEN <<>>
    ELSE LET d == a[i] - Limb(b, i) - borrow
         IN IF d < 0 THEN <<d + B>> \o SubFrom(a, b, i + 1, 1)
                     ELSE <<d>> \o SubFrom(a, b, i + 1, 0)
SubM(a, b) == TrimM(SubFrom(a, b, 1, 0))

\* a * single limb d, shifted left by k limbs
RECURSIVE MulLimbFrom(_, _, _, _)
MulLimbFrom(a, d, i, carry) ==
    IF i > Len(a) THEN (IF carry = 0 THEN <<>> ELSE <<carry>>)
    ELSE LET p == a[i] * d + carry
         IN <<p % B>> \o MulLimbFrom(a, d, i + 1, p \div B)
Zeros(k) == [i \in 1..k |-> 0]
MulLimb(a, d, k) == IF d = 0 \/ a = <<>> THEN <<>> ELSE Zeros(k) \o MulLimbFrom(a, d, 1, 0)

RECURSIVE MulFrom(_, _, _)
MulFrom(a, b, j) == IF j > Len(b) THEN <<>>
                    ELSE AddM(MulLimb(a, b[j], j - 1), MulFrom(a, b, j + 1))
MulM(a, b) == TrimM(MulFrom(a, b, 1))

-----------------------------------------------------------------------------
\* signed integers: [neg |-> BOOLEAN, m |-> magnitude]
MkI(neg, m) == [neg |-> (neg /\ m # <<>>), m |-> m]
IsInt(x) == IsMag(x.m) /\ (x.m = <<>> => ~x.neg)
Zero == MkI(FALSE, <<>>)
NegI(x) == MkI(~x.neg, x.m)

AddI(x, y) == IF x.neg = y.neg THEN MkI(x.neg, AddM(x.m, y.m))
              ELSE IF CmpM(x.m, y.m) >= 0 THEN MkI(x.neg, SubM(x.m, y.m))
              ELSE MkI(y.neg, SubM(y.m, x.m))
SubI(x, y) == AddI(x, NegI(y))
MulI(x, y) == MkI(x.neg # y.neg, MulM(x.m, y.m))
CmpI(x, y) == IF x.neg /\ ~y.neg THEN -1
              ELSE IF ~x.neg /\ y.neg THEN 1
              ELSE IF x.neg THEN CmpM(y.m, x.m) ELSE CmpM(x.m, y.m)

\* 2^63 = 2^(4*13+11) and 2^64
Two63 == <<0, 0, 0, 0, 2048>>
Two64 == <<0, 0, 0, 0, 4096>>
InI64(x) == IF x.neg THEN CmpM(x.m, Two63) <= 0 ELSE CmpM(x.m, Two63) < 0
InU64(m) == CmpM(m, Two64) < 0

(* q is the quotient of a by b truncated toward zero (b # 0):              *)
(*   a = q*b + r,  |r| < |b|,  r = 0 or sign(r) = sign(a)                  *)
IsQuot(a, b, q) == LET r == SubI(a, MulI(q, b))
                   IN /\ CmpM(r.m, b.m) < 0
                      /\ (r.m = <<>> \/ r.neg = a.neg)


(* Long division of magnitudes in base B: for each limb position, the      *)
(* largest digit d with d * b * B^k <= remainder (binary search).          *)
RECURSIVE DigitSearch(_, _, _, _, _)
DigitSearch(rem, b, k, lo, hi) ==
    IF lo = hi THEN lo
    ELSE LET mid == (lo + hi + 1) \div 2
         IN IF CmpM(MulLimb(b, mid, k), rem) <= 0 THEN DigitSearch(rem, b, k, mid, hi)
            ELSE DigitSearch(rem, b, k, lo, mid - 1)
RECURSIVE DivFrom(_, _, _)
DivFrom(rem, b, k) ==
    IF k < 0 THEN <<>>
    ELSE LET d  == DigitSearch(rem, b, k, 0, B - 1)
             r2 == SubM(rem, MulLimb(b, d, k))
         IN DivFrom(r2, b, k - 1) \o <<d>>
DivM(a, b) == TrimM(DivFrom(a, b, Len(a) - 1))
\* quotient truncated toward zero, b # 0
DivI(x, y) == MkI(x.neg # y.neg, DivM(x.m, y.m))

\* small TLC integers <-> Int (used by model-level tests)
RECURSIVE NatM(_)
NatM(n) == IF n = 0 THEN <<>> ELSE <<n % B>> \o NatM(n \div B)
FromSmall(n) == IF n < 0 THEN MkI(TRUE, NatM(0 - n)) ELSE MkI(FALSE, NatM(n))
=============================================================================
