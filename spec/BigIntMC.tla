------------------------------ MODULE BigIntMC ------------------------------
(* L1 self-check of the arithmetic oracle: algebraic laws over the 64-bit   *)
(* boundary pool (every ordered pair), so the reference the traces are       *)
(* validated against is itself model checked.                                *)
EXTENDS BigInt, TLC
Pool == <<
    MkI(FALSE, <<>>),
    MkI(FALSE, <<1>>),
    MkI(TRUE, <<1>>),
    MkI(FALSE, <<2>>),
    MkI(TRUE, <<2>>),
    MkI(FALSE, <<3>>),
    MkI(FALSE, <<7>>),
    MkI(TRUE, <<7>>),
    MkI(FALSE, <<8191, 8191, 31>>),
    MkI(FALSE, <<0, 0, 32>>),
    MkI(TRUE, <<0, 0, 32>>),
    MkI(FALSE, <<0, 0, 64>>),
    MkI(TRUE, <<0, 0, 64>>),
    MkI(FALSE, <<4915, 2087, 45>>),
    MkI(FALSE, <<4916, 2087, 45>>),
    MkI(TRUE, <<4916, 2087, 45>>),
    MkI(FALSE, <<0, 0, 0, 0, 1024>>),
    MkI(TRUE, <<0, 0, 0, 0, 1024>>),
    MkI(FALSE, <<8190, 8191, 8191, 8191, 2047>>),
    MkI(FALSE, <<8191, 8191, 8191, 8191, 2047>>),
    MkI(TRUE, <<8191, 8191, 8191, 8191, 2047>>),
    MkI(TRUE, <<0, 0, 0, 0, 2048>>),
    MkI(FALSE, <<1, 0, 0, 0, 1024>>),
    MkI(FALSE, <<8057, 4206, 4641, 224>>) >>
N == Len(Pool)
VARIABLES i, j
Init == i = 1 /\ j = 1
Next == \/ j < N /\ j' = j + 1 /\ i' = i
        \/ j = N /\ i < N /\ i' = i + 1 /\ j' = 1
a == Pool[i]
b == Pool[j]
WellFormed == IsInt(a) /\ IsInt(AddI(a, b)) /\ IsInt(SubI(a, b)) /\ IsInt(MulI(a, b))
AddComm  == AddI(a, b) = AddI(b, a)
MulComm  == MulI(a, b) = MulI(b, a)
SubInv   == SubI(AddI(a, b), b) = a
CmpAnti  == CmpI(a, b) = 0 - CmpI(b, a)
CmpSub   == (CmpI(a, b) < 0) = SubI(a, b).neg
Distrib  == MulI(a, AddI(b, Pool[((i + j) % N) + 1])) = AddI(MulI(a, b), MulI(a, Pool[((i + j) % N) + 1]))
DivLaw   == b.m # <<>> => /\ IsQuot(a, b, DivI(a, b))
                          /\ IsInt(DivI(a, b))
                          /\ MulI(DivI(MulI(a, b), b), b) = MulI(a, b)
Range    == InI64(a) /\ (InI64(NegI(a)) = (a # MkI(TRUE, Two63)))
=============================================================================
