-------------------------------- MODULE Chain --------------------------------
(***************************************************************************)
(* Symbolic (Dolev-Yao) model of the Biscuit signature chain (biscuit.go). *)
(*                                                                         *)
(* Keys are integers: 1 = issuer root, 2 = another root, 3 = the attacker's *)
(* own key, 10.. = fresh "next" keys drawn by honest Build / Append.  A key *)
(* id stands for the public key; its secret is known only to the parties   *)
(* the protocol gives it to.  A signature is the term [key, payload]; it    *)
(* verifies under K for payload P iff key = K and payload = P (ed25519 and  *)
(* protobuf are trusted, collisions are impossible).                        *)
(*                                                                         *)
(*   signed block : [c, next, sig, op]   content id, announced next key,    *)
(*                                       signature, ghost: signing op id    *)
(*   token        : [bl, pf, rid, root]  blocks (authority first), proof     *)
(*                                       [t |-> "sec", k] | [t |-> "fin",    *)
(*                                       sig], root key id (0 = absent),     *)
(*                                       ghost: index of its root token      *)
(*                                                                         *)
(* Honest parties Build / Append / Seal; then some honest tokens are GIVEN  *)
(* to the attacker, who learns their components and proof secrets and       *)
(* assembles a token slot by slot from anything it knows or can sign.       *)
(* Switches model the mechanisms named by the anchors; turning one off      *)
(* yields a negative model in which TLC exhibits an attack.                 *)
(***************************************************************************)
EXTENDS Integers, Sequences, FiniteSets, SequencesExt, TLC, Json

CONSTANTS MaxHonest, Slots, Contents, RootIds, ExportOneIn,
          SignCoversNextKey, VerifyProof, SealCoversLastSig, KeepRootKeyId

Root == 1
OtherRoot == 2
Atk == 3

Sig(k, p) == [key |-> k, payload |-> p]
BlockPayload(c, next) == IF SignCoversNextKey THEN <<"b", c, next>> ELSE <<"b", c>>
SealPayload(b) == IF SealCoversLastSig THEN <<"s", b.c, b.next, b.sig>> ELSE <<"s", b.c, b.next>>

PrevKey(bl, i, K) == IF i = 1 THEN K ELSE bl[i - 1].next
ChainOK(bl, K) == \A i \in 1..Len(bl) : bl[i].sig = Sig(PrevKey(bl, i, K), BlockPayload(bl[i].c, bl[i].next))
ProofOK(t) == LET last == t.bl[Len(t.bl)] IN
              IF t.pf.t = "sec" THEN t.pf.k = last.next
              ELSE t.pf.sig = Sig(last.next, SealPayload(last))
\* biscuit.go:332-413: authority under K, each block under the previous next key, then the proof
Verify(t, K) == Len(t.bl) >= 1 /\ ChainOK(t.bl, K) /\ (VerifyProof => ProofOK(t))

Sealed(t) == t.pf.t = "fin"
RevIds(t) == [i \in 1..Len(t.bl) |-> t.bl[i].sig]
Strip(b) == [c |-> b.c, next |-> b.next, sig |-> b.sig]
Wire(t) == [bl |-> [i \in 1..Len(t.bl) |-> Strip(t.bl[i])], pf |-> t.pf, rid |-> t.rid]

-----------------------------------------------------------------------------
VARIABLES tokens,    \* honest tokens, in creation order
          hops,      \* honest operations performed (exported)
          nk,        \* next fresh key id
          phase,     \* "honest" | "attack" | "done"
          given,     \* indexes of honest tokens handed to the attacker
          atk        \* the attacker's token under construction: [bl, pf, rid]
vars == <<tokens, hops, nk, phase, given, atk>>

NoProof == [t |-> "none"]
Init == tokens = <<>> /\ hops = <<>> /\ nk = 10 /\ phase = "honest" /\ given = {} /\ atk = [bl |-> <<>>, pf |-> NoProof, rid |-> 0]

Build(c, rid) ==
    /\ phase = "honest" /\ Len(tokens) < MaxHonest
    /\ tokens' = Append(tokens, [bl |-> << [c |-> c, next |-> nk, sig |-> Sig(Root, BlockPayload(c, nk)), op |-> Len(hops) + 1] >>,
                                 pf |-> [t |-> "sec", k |-> nk], rid |-> rid, root |-> Len(tokens) + 1])
    /\ hops' = Append(hops, [op |-> "build", c |-> c, rid |-> rid]) /\ nk' = nk + 1
    /\ UNCHANGED <<phase, given, atk>>

AppendOp(i, c) ==
    /\ phase = "honest" /\ Len(tokens) < MaxHonest /\ ~Sealed(tokens[i])
    /\ LET t == tokens[i] IN
       tokens' = Append(tokens, [bl |-> Append(t.bl, [c |-> c, next |-> nk, sig |-> Sig(t.pf.k, BlockPayload(c, nk)), op |-> Len(hops) + 1]),
                                 pf |-> [t |-> "sec", k |-> nk],
                                 rid |-> IF KeepRootKeyId THEN t.rid ELSE 0, root |-> t.root])
    /\ hops' = Append(hops, [op |-> "append", i |-> i, c |-> c]) /\ nk' = nk + 1
    /\ UNCHANGED <<phase, given, atk>>

SealOp(i) ==
    /\ phase = "honest" /\ Len(tokens) < MaxHonest /\ ~Sealed(tokens[i])
    /\ LET t == tokens[i] last == t.bl[Len(t.bl)] IN
       tokens' = Append(tokens, [t EXCEPT !.pf = [t |-> "fin", sig |-> Sig(t.pf.k, SealPayload(last))],
                                          !.rid = IF KeepRootKeyId THEN t.rid ELSE 0])
    /\ hops' = Append(hops, [op |-> "seal", i |-> i])
    /\ UNCHANGED <<nk, phase, given, atk>>

\* ---- attacker ----
Handover == /\ phase = "honest" /\ tokens # <<>>
            /\ \E g \in (SUBSET (1..Len(tokens))) \ {{}} : given' = g
            /\ phase' = "attack" /\ UNCHANGED <<tokens, hops, nk, atk>>

GivenToks == {tokens[i] : i \in given}
KnownSecrets == {Atk} \cup {t.pf.k : t \in {t \in GivenToks : ~Sealed(t)}}
KnownKeys == {Root, OtherRoot, Atk} \cup UNION {{t.bl[i].next : i \in 1..Len(t.bl)} : t \in GivenToks}
KnownBlockSigs == UNION {{t.bl[i].sig : i \in 1..Len(t.bl)} : t \in GivenToks}
KnownFinalSigs == {t.pf.sig : t \in {t \in GivenToks : Sealed(t)}}
KnownSigs == KnownBlockSigs \cup KnownFinalSigs

AddSlot == /\ phase = "attack" /\ Len(atk.bl) < Slots /\ atk.pf = NoProof
           /\ \E c \in Contents, next \in KnownKeys :
              \E sig \in KnownSigs \cup {Sig(k, BlockPayload(c, next)) : k \in KnownSecrets} :
                 atk' = [atk EXCEPT !.bl = Append(@, [c |-> c, next |-> next, sig |-> sig])]
           /\ UNCHANGED <<tokens, hops, nk, phase, given>>

SetProof == /\ phase = "attack" /\ atk.bl # <<>> /\ atk.pf = NoProof
            /\ LET last == atk.bl[Len(atk.bl)] IN
               \E pf \in {[t |-> "sec", k |-> k] : k \in KnownSecrets}
                         \cup {[t |-> "fin", sig |-> s] : s \in KnownSigs \cup {Sig(k, SealPayload(last)) : k \in KnownSecrets}} :
                  atk' = [atk EXCEPT !.pf = pf]
            /\ phase' = "done"
            /\ UNCHANGED <<tokens, hops, nk, given>>

Next == \/ \E c \in Contents, rid \in RootIds : Build(c, rid)
        \/ \E i \in 1..Len(tokens) : SealOp(i) \/ \E c \in Contents : AppendOp(i, c)
        \/ Handover \/ AddSlot \/ SetProof
Spec == Init /\ [][Next]_vars

-----------------------------------------------------------------------------
\* C01
Completeness == \A i \in 1..Len(tokens) : Verify(tokens[i], Root) /\ ~Verify(tokens[i], OtherRoot) /\ ~Verify(tokens[i], Atk)
StripSeq(bl) == [i \in 1..Len(bl) |-> Strip(bl[i])]
Extends(a, h) == /\ IsPrefix(StripSeq(h.bl), a.bl)
                 /\ (Sealed(h) => a.bl = StripSeq(h.bl) /\ a.pf = h.pf)
\* a token the attacker gets accepted under the issuer's root key extends a token it was legitimately handed:
\* no honest block up to the hand-over point is altered, reordered, removed or re-keyed, and a sealed token is final
Unforgeability == phase = "done" /\ Verify(atk, Root) => \E h \in GivenToks : Extends(atk, h)
\* C09
SealPreserves == \A i \in 1..Len(hops) : hops[i].op = "seal" =>
                    LET s == tokens[i] t == tokens[hops[i].i] IN
                    /\ StripSeq(s.bl) = StripSeq(t.bl) /\ RevIds(s) = RevIds(t)
                    /\ \A K \in {Root, OtherRoot, Atk} : Verify(s, K) = Verify(t, K)
\* C16
IdPreserved == \A i \in 1..Len(tokens) : tokens[i].rid = tokens[tokens[i].root].rid
\* C17
RevPrefix == \A i \in 1..Len(hops) : hops[i].op \in {"append", "seal"} => IsPrefix(RevIds(tokens[hops[i].i]), RevIds(tokens[i]))
AllBlocks == UNION {{t.bl[j] : j \in 1..Len(t.bl)} : t \in {tokens[i] : i \in 1..Len(tokens)}}
RevUnique == \A a, b \in AllBlocks : a.sig = b.sig => a.op = b.op
RevPerBlock == \A i \in 1..Len(tokens) : Len(RevIds(tokens[i])) = Len(tokens[i].bl)

\* C16: key lookup by identifier.  A key map is [keys |-> function id -> key, def |-> key or 0 (none)].
Pair(a, b) == [x \in {a} |-> b]
KeyMaps == << [keys |-> (7 :> Root) @@ (8 :> Root) @@ (9 :> Root), def |-> Root],
              [keys |-> (7 :> OtherRoot) @@ (8 :> Root) @@ (9 :> Root), def |-> Root],     \* right key only under OTHER ids
              [keys |-> (8 :> OtherRoot), def |-> Root],
              [keys |-> (7 :> Root), def |-> 0],
              [keys |-> (8 :> Root) @@ (9 :> OtherRoot), def |-> OtherRoot],
              [keys |-> (7 :> 0) @@ (8 :> Root), def |-> Root] >>                           \* id 7 registered with an EMPTY key: no key, never the default
Lookup(rid, m) == IF rid = 0 THEN m.def ELSE IF rid \in DOMAIN m.keys THEN m.keys[rid] ELSE 0
LookupOutcome(t, m) == LET K == Lookup(t.rid, m) IN IF K = 0 THEN "nokey" ELSE IF Verify(t, K) THEN "ok" ELSE "badsig"
\* the token is verified against exactly the key registered under ITS identifier (or the default when it has none)
LookupExact == \A i \in 1..Len(tokens) : \A m \in 1..Len(KeyMaps) :
                  LookupOutcome(tokens[i], KeyMaps[m]) = "ok" <=> Lookup(tokens[i].rid, KeyMaps[m]) = Root

\* every accepted attacker token is exported, and one in ExportOneIn of the rejected ones (1 = all)
Export == phase = "done" /\ (Verify(atk, Root) \/ ExportOneIn = 1 \/ RandomElement(1..ExportOneIn) = 1) =>
    PrintT(<<"CASE", ToJson([hops |-> hops, tokens |-> [i \in 1..Len(tokens) |-> Wire(tokens[i])], given |-> given,
                              atk |-> atk, accept |-> Verify(atk, Root),
                              secrets |-> KnownSecrets])>>)
ExportHonest == phase = "honest" /\ Len(tokens) = MaxHonest =>
    PrintT(<<"CASE", ToJson([hops |-> hops, tokens |-> [i \in 1..Len(tokens) |-> Wire(tokens[i])],
                              lookups |-> [i \in 1..Len(tokens) |-> [m \in 1..Len(KeyMaps) |-> LookupOutcome(tokens[i], KeyMaps[m])]]])>>)
=============================================================================
