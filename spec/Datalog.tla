------------------------------- MODULE Datalog -------------------------------
(***************************************************************************)
(* Declarative semantics of the Datalog fragment used by Biscuit.          *)
(*                                                                         *)
(* Everything is integer coded so that TLC never compares values of        *)
(* different kinds and traces can be written as plain JSON arrays:         *)
(*   term      : Int       constants >= 0, variables < 0                   *)
(*   atom      : <<p, t1, ..., tn>>   predicate id p >= 0, arity n >= 0     *)
(*   fact      : ground atom                                               *)
(*   guard     : [o |-> "lt"|"le"|"eq"|"ne"|"pre"|"re"|"T"|"F"|"E", l |-> term, r |-> term]*)
(*               "E" = an expression that fails whenever it is evaluated   *)
(*   rule      : [h |-> atom, b |-> <<atoms>>, g |-> <<guards>>]           *)
(* The harness embeds constants into concrete Biscuit terms (order         *)
(* preserving when lt/le are used) and predicate ids into symbol names.    *)
(***************************************************************************)
EXTENDS Integers, Sequences, FiniteSets

AtomVars(a) == {a[i] : i \in 2..Len(a)} \cap {v \in {a[i] : i \in 2..Len(a)} : v < 0}
IsGround(a) == \A i \in 2..Len(a) : a[i] >= 0

EmptySub == <<>>

\* atom a matches fact f consistently with substitution s
MatchAtom(a, f, s) ==
    /\ Len(a) = Len(f)
    /\ a[1] = f[1]
    /\ \A i \in 2..Len(a) :
          IF a[i] >= 0 THEN a[i] = f[i]
          ELSE /\ (a[i] \in DOMAIN s => s[a[i]] = f[i])
               /\ \A j \in 2..Len(a) : a[j] = a[i] => f[j] = f[i]

Extend(s, a, f) ==
    [v \in (DOMAIN s) \cup AtomVars(a) |->
        IF v \in DOMAIN s THEN s[v] ELSE f[CHOOSE i \in 2..Len(a) : a[i] = v]]

RECURSIVE MatchBody(_, _, _, _)
MatchBody(body, k, F, S) ==
    IF k > Len(body) THEN S
    ELSE MatchBody(body, k + 1, F,
             UNION {{Extend(s, body[k], f) : f \in {f \in F : MatchAtom(body[k], f, s)}} : s \in S})

\* all substitutions (over the variables of the body) that match every body atom in F
Matches(body, F) == MatchBody(body, 1, F, {EmptySub})

TermVal(t, s) == IF t >= 0 THEN t ELSE s[t]
GuardBound(g, s) == (g.l >= 0 \/ g.l \in DOMAIN s) /\ (g.r >= 0 \/ g.r \in DOMAIN s)

\* "t" / "f" / "e"
GuardVal(g, s) ==
    CASE g.o = "T" -> "t"
      [] g.o = "F" -> "f"
      [] g.o = "E" -> "e"
      [] OTHER -> IF ~GuardBound(g, s) THEN "e"
                  ELSE LET a == TermVal(g.l, s) b == TermVal(g.r, s) IN
                       IF CASE g.o = "lt" -> a < b [] g.o = "le" -> a <= b
                            [] g.o = "eq" -> a = b [] g.o = "ne" -> a # b
                            [] g.o = "pre" -> a <= b     \* l.starts_with(r): constant i is embedded as the string of (12 - i) letters "a"
                            [] g.o = "re" -> a <= b      \* l.matches(r): the pattern "a"^(12-r) occurs in "a"^(12-l) iff l <= r
                       THEN "t" ELSE "f"

\* guards are evaluated left to right; the first non-true one decides
RECURSIVE GuardsFrom(_, _, _)
GuardsFrom(gs, k, s) == IF k > Len(gs) THEN "t"
                        ELSE LET v == GuardVal(gs[k], s) IN IF v = "t" THEN GuardsFrom(gs, k + 1, s) ELSE v
Guards(gs, s) == GuardsFrom(gs, 1, s)

Inst(a, s) == [i \in 1..Len(a) |-> IF i = 1 \/ a[i] >= 0 THEN a[i] ELSE s[a[i]]]

BodyVars(b) == UNION {AtomVars(b[i]) : i \in 1..Len(b)}
RangeRestricted(r) == AtomVars(r.h) \subseteq BodyVars(r.b)

Good(r, F) == {s \in Matches(r.b, F) : Guards(r.g, s) = "t"}
\* facts a rule derives from F
Conseq(r, F) == IF RangeRestricted(r) THEN {Inst(r.h, s) : s \in Good(r, F)} ELSE {}
\* the rule cannot be applied without an error (failing expression, or head variable missing from the body)
Fails(r, F) == \/ \E s \in Matches(r.b, F) : Guards(r.g, s) = "e"
               \/ (~RangeRestricted(r) /\ Good(r, F) # {})
\* the expression outcome does not depend on the enumeration order of the matches
Uniform(r, F) == ~(Fails(r, F) /\ Good(r, F) # {})

RuleSet(R) == {R[i] : i \in 1..Len(R)}
Step(F, R) == F \cup UNION {Conseq(r, F) : r \in RuleSet(R)}

RECURSIVE LfpFrom(_, _, _)
LfpFrom(F, R, fuel) == LET G == Step(F, R) IN IF G = F \/ fuel = 0 THEN F ELSE LfpFrom(G, R, fuel - 1)
Lfp(F, R) == LfpFrom(F, R, 200)

\* number of productive rounds of naive iteration until the fixpoint
RECURSIVE RoundsFrom(_, _, _)
RoundsFrom(F, R, n) == LET G == Step(F, R) IN IF G = F \/ n >= 200 THEN n ELSE RoundsFrom(G, R, n + 1)
Rounds(F, R) == RoundsFrom(F, R, 0)

\* does evaluation hit a failing rule before the fixpoint?  (rules are applied to the facts of the round start)
RECURSIVE FailsFrom(_, _, _)
FailsFrom(F, R, fuel) ==
    IF \E r \in RuleSet(R) : Fails(r, F) THEN TRUE
    ELSE LET G == Step(F, R) IN IF G = F \/ fuel = 0 THEN FALSE ELSE FailsFrom(G, R, fuel - 1)
RunFails(F, R) == FailsFrom(F, R, 200)

\* a query (rule body + guards) is satisfied in F
Holds(q, F) == Good(q, F) # {}
SeqSet(s) == {s[i] : i \in 1..Len(s)}

(* The contract of an evaluation with limits (C05 + C11), used by the model   *)
(* invariant of DatalogRun and by trace validation.                          *)
\* obs = [res |-> "ok"|"maxfacts"|"maxiter"|"timeout"|"err", facts |-> set of facts]
RunAllowed(F0, R, mf, mi, obs) ==
    LET fails == RunFails(F0, R)
        L == Lfp(F0, R)
        n == Cardinality(L)
        k == Rounds(F0, R)
    IN IF fails
       THEN obs.res \in {"err", "maxfacts", "maxiter"} /\ (obs.res = "maxfacts" => n >= mf) /\ (obs.res = "maxiter" => k >= mi)
       ELSE /\ obs.res \in {"ok", "maxfacts", "maxiter"}
            /\ (obs.res = "ok" => obs.facts = L /\ n <= mf /\ k <= mi)
            /\ (obs.res = "maxfacts" => n >= mf)
            /\ (obs.res = "maxiter" => k >= mi)

=============================================================================
