---------------------------- MODULE DatalogEngine ----------------------------
(***************************************************************************)
(* Operational model of datalog.go `combine` / `advanceIndexes`: the       *)
(* hand-written join enumeration ("odometer") over a fact LIST, transcribed*)
(* step by step (indices 1-based).  One action per loop iteration of the   *)
(* code.  The declarative module Datalog says what it must enumerate.      *)
(***************************************************************************)
EXTENDS Datalog, TLC, Json

CONSTANTS Bodies,      \* sequence of candidate rule bodies (sequences of atoms)
          Universe,    \* sequence of ground facts to draw fact lists from
          MaxFacts     \* maximal length of the fact list

VARIABLES facts,   \* the fact list (a sequence: order matters to the code, not to the result)
          body,    \* the rule body being joined
          idx,     \* idx[i] = position in facts currently tried for body[i]   (`indexes`)
          cur,     \* the body atom being scanned                              (`current`)
          pc,      \* "start" | "scan" | "extract" | "done"
          out      \* sequence of bindings sent on the channel so far
vars == <<facts, body, idx, cur, pc, out>>

N == Len(body)

\* Predicate.Match: name, arity, constants; variables are wildcards
CodeMatch(f, a) == /\ Len(f) = Len(a) /\ f[1] = a[1]
                   /\ \A i \in 2..Len(a) : a[i] >= 0 => f[i] = a[i]

\* advanceIndexes(&current, &indexes, facts): returns [ok, cur, idx]
RECURSIVE Adv(_, _, _)
Adv(i, c, ix) ==
    IF ix[i] < Len(facts) THEN [ok |-> TRUE, cur |-> c, idx |-> [ix EXCEPT ![i] = @ + 1]]
    ELSE IF i > 1 THEN Adv(i - 1, c - 1, [ix EXCEPT ![i] = 1])
    ELSE [ok |-> FALSE, cur |-> c, idx |-> ix]

\* "extract and check variables": MatchedVariables.Insert over the chosen facts, in order
RECURSIVE Bind(_, _)
Bind(k, s) ==
    IF k > N THEN [ok |-> TRUE, s |-> s]
    ELSE LET a == body[k] f == facts[idx[k]] IN
         IF \A i \in 2..Len(a) : a[i] < 0 =>
                /\ (a[i] \in DOMAIN s => s[a[i]] = f[i])
                /\ \A j \in 2..Len(a) : a[j] = a[i] => f[j] = f[i]
         THEN Bind(k + 1, Extend(s, a, f))
         ELSE [ok |-> FALSE, s |-> s]

\* all duplicate-free fact lists of length <= MaxFacts are built by the Grow action
Init == /\ facts = <<>> /\ body \in {Bodies[i] : i \in 1..Len(Bodies)}
        /\ idx = <<>> /\ cur = 1 /\ pc = "grow" /\ out = <<>>

Fresh(u) == \A j \in 1..Len(facts) : facts[j] # Universe[u]
Grow == /\ pc = "grow" /\ Len(facts) < MaxFacts
        /\ \E u \in 1..Len(Universe) : Fresh(u) /\ facts' = Append(facts, Universe[u])
        /\ UNCHANGED <<body, idx, cur, pc, out>>

Start == /\ pc = "grow"
         /\ idx' = [i \in 1..N |-> 1] /\ cur' = 1
         /\ pc' = IF N > 0 /\ Len(facts) = 0 THEN "done"        \* cannot apply a rule on an empty list of facts
                  ELSE IF N = 0 THEN "extract" ELSE "scan"
         /\ UNCHANGED <<facts, body, out>>

Scan == /\ pc = "scan"
        /\ IF CodeMatch(facts[idx[cur]], body[cur])
           THEN IF cur = N THEN pc' = "extract" /\ UNCHANGED <<cur, idx>>
                ELSE cur' = cur + 1 /\ UNCHANGED <<pc, idx>>
           ELSE LET r == Adv(cur, cur, idx) IN
                IF r.ok THEN cur' = r.cur /\ idx' = r.idx /\ UNCHANGED pc
                ELSE pc' = "done" /\ UNCHANGED <<cur, idx>>
        /\ UNCHANGED <<facts, body, out>>

Extract == /\ pc = "extract"
           /\ LET b == Bind(1, EmptySub) IN out' = IF b.ok THEN Append(out, b.s) ELSE out
           /\ IF N = 0 THEN pc' = "done" /\ UNCHANGED <<cur, idx>>
              ELSE LET r == Adv(cur, cur, idx) IN
                   IF r.ok THEN cur' = r.cur /\ idx' = r.idx /\ pc' = "scan"
                   ELSE pc' = "done" /\ UNCHANGED <<cur, idx>>
           /\ UNCHANGED <<facts, body>>

Next == Grow \/ Start \/ Scan \/ Extract
Spec == Init /\ [][Next]_vars

-----------------------------------------------------------------------------
FactSet == SeqSet(facts)
Emitted == SeqSet(out)

TypeOK == /\ pc \in {"grow", "scan", "extract", "done"}
          /\ (pc \in {"scan", "extract"} /\ N > 0 => cur \in 1..N /\ \A i \in 1..N : idx[i] \in 1..Len(facts))
\* positions after `current` are always reset: the enumeration is a proper odometer
Odometer == pc = "scan" => \A i \in (cur + 1)..N : idx[i] = 1
OdometerSound == pc = "done" => \A i \in 1..Len(out) : out[i] \in Matches(body, FactSet)
OdometerComplete == pc = "done" => Emitted = Matches(body, FactSet)
\* each match is sent exactly once
NoRepeat == pc = "done" => \A i, j \in 1..Len(out) : i # j => out[i] # out[j]

\* L2 export: the join result the real engine must produce for this body and this fact ORDER
\* (variables of a body are -1 .. -K; a row lists the values of -1, -2, ..., -K)
K == Cardinality(BodyVars(body))
VarsContiguous == BodyVars(body) = {0 - i : i \in 1..K}
Export == pc = "done" =>
    PrintT(<<"CASE", ToJson([body |-> body, facts |-> facts, k |-> K,
                              exp |-> {[i \in 1..K |-> s[0 - i]] : s \in Matches(body, FactSet)}])>>)
=============================================================================
