----------------------------- MODULE DatalogRun -----------------------------
(***************************************************************************)
(* World.Run of datalog.go: naive iteration with the maxFacts /            *)
(* maxIterations limits, one action per loop iteration, and the contract   *)
(* (C05 + C11) any evaluation outcome has to satisfy, stated declaratively *)
(* with Datalog!Lfp:                                                       *)
(*   - success only at the least fixpoint (no silent truncation);          *)
(*   - more facts than maxFacts, or more productive rounds than            *)
(*     maxIterations, is an error with the matching sentinel;              *)
(*   - a limit error is only reported when that limit was really reached   *)
(*     (reaching a limit exactly is an open corner: either outcome).       *)
(***************************************************************************)
EXTENDS Datalog, TLC, Json, FiniteSetsExt

\* ---- the loop of World.Run ------------------------------------------------
CONSTANTS MaxF, MaxR   \* programs = up to MaxF facts of Uni (in index order) and up to MaxR rules of RulesCat

\* predicates: 0 = e/2, 1 = t/2, 2 = p/1, 3 = a/1, 4 = b/1;  variables x = -1, y = -2, z = -3
G(o, l, r) == [o |-> o, l |-> l, r |-> r]
R(h, b, g) == [h |-> h, b |-> b, g |-> g]
RulesCat == <<
    R(<<1, -1, -2>>, << <<0, -1, -2>> >>, <<>>),
    R(<<1, -1, -3>>, << <<1, -1, -2>>, <<0, -2, -3>> >>, <<>>),            \* recursion
    R(<<0, -2, -1>>, << <<0, -1, -2>> >>, <<>>),                            \* symmetric closure
    R(<<2, -1>>, << <<1, -1, -1>> >>, <<>>),                                \* repeated variable
    R(<<2, -1>>, << <<0, -1, -2>> >>, << G("lt", -1, -2) >>),               \* guard
    R(<<1, -1, -2>>, << <<2, -1>>, <<2, -2>> >>, << G("ne", -1, -2) >>),    \* cross product + guard
    R(<<3, -1>>, << <<4, -1>> >>, <<>>),                                    \* mutual recursion a <-> b
    R(<<4, -1>>, << <<3, -1>>, <<0, -1, -2>> >>, <<>>),
    R(<<4, -1>>, << <<2, -1>> >>, <<>>),
    R(<<2, 1>>, <<>>, <<>>),                                                \* empty body
    R(<<2, -1>>, << <<0, -1, 1>> >>, << G("F", 0, 0) >>),                   \* never true
    R(<<3, -1>>, << <<0, -1, -2>> >>, << G("E", 0, 0) >>),                  \* failing expression
    R(<<3, -2>>, << <<2, -1>> >>, <<>>) >>                                  \* head variable missing from the body
Uni == << <<0, 0, 0>>, <<0, 0, 1>>, <<0, 1, 0>>, <<0, 1, 1>>, <<0, 1, 2>>, <<0, 2, 0>>, <<2, 0>>, <<2, 1>> >>

VARIABLES fsel, rsel, lk, lim, flist, iter, res
vars == <<fsel, rsel, lk, lim, flist, iter, res>>
RECURSIVE PickFrom(_, _, _)
PickFrom(seq, sel, i) == IF i > Len(seq) THEN <<>>
                        ELSE (IF i \in sel THEN <<seq[i]>> ELSE <<>>) \o PickFrom(seq, sel, i + 1)
Pick(seq, sel) == PickFrom(seq, sel, 1)
prog == [f |-> Pick(Uni, fsel), r |-> Pick(RulesCat, rsel)]

FS == SeqSet(flist)
RECURSIVE SetToSeq(_)
SetToSeq(S) == IF S = {} THEN <<>> ELSE LET x == CHOOSE x \in S : TRUE IN <<x>> \o SetToSeq(S \ {x})

Max2(a, b) == IF a > b THEN a ELSE b
\* limit configurations are placed around what the program really needs (N0 facts, K0 productive rounds)
LimOf(k) == LET F0 == SeqSet(prog.f)
                N0 == Cardinality(Lfp(F0, prog.r))
                K0 == Rounds(F0, prog.r)
            IN IF k <= 3 THEN [mf |-> Max2(1, N0 + k - 2), mi |-> 100]
               ELSE [mf |-> 1000, mi |-> Max2(1, K0 + k - 5)]

Init == /\ fsel \in UNION {kSubset(k, 1..Len(Uni)) : k \in 0..MaxF}
        /\ rsel \in UNION {kSubset(k, 1..Len(RulesCat)) : k \in 0..MaxR}
        /\ lk \in 1..7
        /\ lim = [mf |-> 0, mi |-> 0] /\ flist = <<>> /\ iter = 0 /\ res = "init"

Load == /\ res = "init"
        /\ lim' = LimOf(lk) /\ flist' = prog.f /\ res' = "running"
        /\ UNCHANGED <<fsel, rsel, lk, iter>>

Iterate ==
    /\ res = "running"
    /\ IF iter >= lim.mi THEN res' = "maxiter" /\ UNCHANGED <<flist, iter>>
       ELSE IF \E r \in RuleSet(prog.r) : Fails(r, FS) THEN res' = "err" /\ UNCHANGED <<flist, iter>>
       ELSE LET new == Step(FS, prog.r) \ FS
                fl  == flist \o SetToSeq(new)
            IN /\ flist' = fl
               /\ iter' = iter + 1
               /\ res' = IF Len(fl) >= lim.mf THEN "maxfacts"
                         ELSE IF new = {} THEN "ok" ELSE "running"
    /\ UNCHANGED <<fsel, rsel, lk, lim>>

Next == Load \/ Iterate
Spec == Init /\ [][Next]_vars

NoDupFacts == \A i, j \in 1..Len(flist) : i # j => flist[i] # flist[j]
RunCorrect == res \notin {"init", "running"} =>
                 RunAllowed(SeqSet(prog.f), prog.r, lim.mf, lim.mi, [res |-> res, facts |-> FS])
Terminates == <>(res \notin {"init", "running"})
Export == res \notin {"init", "running"} =>
    PrintT(<<"CASE", ToJson([kind |-> "run", facts |-> prog.f, rules |-> prog.r, mf |-> lim.mf, mi |-> lim.mi,
                              model |-> res])>>)
=============================================================================
