------------------------------- MODULE Entropy -------------------------------
(***************************************************************************)
(* C20: operations that draw key material from a caller-supplied random    *)
(* source (Builder.Build with WithRNG, New, Append) under every fault of    *)
(* that source.  The source delivers `k` bytes of the 32 requested and then *)
(* fails in one of several ways; reads may be short.                        *)
(*                                                                         *)
(* Specification: the operation is atomic with respect to the fault --      *)
(* it either returns a token whose next key pair is derived from the 32     *)
(* bytes actually delivered (and which verifies), or it returns an error    *)
(* and NO token; it never panics and never derives a key from fewer bytes.  *)
(***************************************************************************)
EXTENDS Integers, Sequences, TLC, Json

Ops == {"build", "new", "append", "append_after_reload"}
\* how the source fails after k bytes (persistently: every later Read fails the same way).  The error VALUE is part of the fault
\* space because callers special-case some of them: io.EOF / a wrapped io.EOF, io.ErrUnexpectedEOF, errors with Temporary() or
\* Timeout() (EAGAIN, EINTR, deadline exceeded), a *PathError; "..._with_data" = the last bytes and the error arrive in ONE Read.
Faults == {"error", "eof", "unexpected_eof", "zero_then_error", "temporary", "interrupted", "deadline", "wrapped_eof",
           "path_error", "error_with_data", "eof_with_data",
           "typed_nil"}      \* a nil *os.File inside a non-nil io.Reader: Read fails after 0 bytes (differs from "error" only for k = 0)
Chunks == {1, 7, 32}                                               \* maximal bytes per Read call (short reads)

VARIABLES op, k, fault, chunk, pos, outcome
vars == <<op, k, fault, chunk, pos, outcome>>

Init == op \in Ops /\ k \in 0..32 /\ fault \in Faults /\ chunk \in Chunks /\ pos = 0 /\ outcome = "running"

\* one Read call of the key generator: delivers up to `chunk` bytes, never beyond k
Read == /\ outcome = "running" /\ pos < 32
        /\ IF pos < k THEN pos' = (IF pos + chunk < k THEN pos + chunk ELSE k) /\ UNCHANGED outcome
           ELSE outcome' = "error" /\ UNCHANGED pos          \* the source fails: the operation must report it
        /\ UNCHANGED <<op, k, fault, chunk>>
Finish == /\ outcome = "running" /\ pos = 32
          /\ outcome' = "token" /\ UNCHANGED <<op, k, fault, chunk, pos>>
Next == Read \/ Finish
Spec == Init /\ [][Next]_vars /\ WF_vars(Next)

\* a token is only ever returned when all 32 bytes were delivered
NoDegenerateKey == outcome = "token" => pos = 32 /\ k = 32
ErrorIffFault == outcome # "running" => (outcome = "error" <=> k < 32)
Terminates == <>(outcome # "running")
Export == outcome # "running" => PrintT(<<"CASE", ToJson([op |-> op, k |-> k, fault |-> fault, chunk |-> chunk, exp |-> outcome])>>)
=============================================================================
