-------------------------------- MODULE Expr --------------------------------
(***************************************************************************)
(* The expression stack machine of datalog/expressions.go as a             *)
(* specification: an operator sequence and a variable environment denote   *)
(* Ok(value), Err, or Any (= the property leaves the outcome open, only    *)
(* "no panic" is required).                                                *)
(*                                                                         *)
(* ops : sequence of                                                       *)
(*   [k |-> "val", v |-> value] | [k |-> "var", n |-> Nat]                 *)
(*   [k |-> "un",  o |-> "neg" | "par" | "len"]                            *)
(*   [k |-> "bin", o |-> "lt" | "le" | "gt" | "ge" | "eq" | "contains" |   *)
(*        "prefix" | "suffix" | "regex" | "add" | "sub" | "mul" | "div" |  *)
(*        "and" | "or" | "inter" | "union"]                                *)
(* env : sequence of [n |-> Nat, v |-> value]                              *)
(***************************************************************************)
EXTENDS Values

MaxStack == 1000

Err == [k |-> "err"]
Any == [k |-> "any"]
Ok(v) == [k |-> "ok", v |-> v]

UnOps  == {"neg", "par", "len"}
BinOps == {"lt", "le", "gt", "ge", "eq", "contains", "prefix", "suffix", "regex", "add", "sub", "mul", "div",
           "and", "or", "inter", "union"}

Front(s) == SubSeq(s, 1, Len(s) - 1)

Unary(o, v) ==
    CASE o = "neg" -> IF v.t = "bool" THEN Ok(VBool(~v.b)) ELSE Err
      [] o = "par" -> Ok(v)
      [] o = "len" -> CASE v.t = "str"   -> Ok(VInt(FromSmall(Len(v.s))))
                        [] v.t = "bytes" -> Ok(VInt(FromSmall(Len(v.y))))
                        [] v.t = "set"   -> IF NoDup(v.e) THEN Ok(VInt(FromSmall(Len(v.e)))) ELSE Any
                        [] OTHER -> Err
      [] OTHER -> Err

\* integer results must fit 64 bits, never wrap
Fit(x) == IF InI64(x) THEN Ok(VInt(x)) ELSE Err

Ordered(o, c) == CASE o = "lt" -> c < 0 [] o = "le" -> c <= 0 [] o = "gt" -> c > 0 [] o = "ge" -> c >= 0

(* Regular expressions: only literal patterns over plain characters with   *)
(* optional ^ / $ anchors are given a meaning; anything else is Any.       *)
Plain(c) == (c >= 48 /\ c <= 57) \/ (c >= 65 /\ c <= 90) \/ (c >= 97 /\ c <= 122) \/ c = 47 \/ c = 95 \/ c = 32
Regex(s, p) ==
    LET aS   == p # <<>> /\ p[1] = 94
        p1   == IF aS THEN Tail(p) ELSE p
        aE   == p1 # <<>> /\ p1[Len(p1)] = 36
        body == IF aE THEN Front(p1) ELSE p1
    IN IF \E i \in 1..Len(body) : ~Plain(body[i]) THEN Any
       ELSE Ok(VBool(CASE aS /\ aE -> s = body
                       [] aS /\ ~aE -> IsPrefixB(body, s)
                       [] ~aS /\ aE -> IsSuffixB(body, s)
                       [] OTHER -> ContainsB(s, body)))

SetOk(a) == NoDup(a.e)
SelectSeqMem(xs, ys, keep) == SelectSeq(xs, LAMBDA x : Mem(x, ys) = keep)

Binary(o, a, b) ==
    CASE o \in {"lt", "le", "gt", "ge"} ->
            IF a.t # b.t THEN Err
            ELSE IF a.t = "int" THEN Ok(VBool(Ordered(o, CmpI(a.i, b.i))))
            ELSE IF a.t = "date" THEN Ok(VBool(Ordered(o, CmpM(a.d, b.d))))
            ELSE Err
      [] o = "eq" -> IF a.t # b.t THEN Err
                     ELSE IF a.t = "set" /\ ~(SetOk(a) /\ SetOk(b)) THEN Any
                     ELSE Ok(VBool(ValEq(a, b)))
      [] o = "contains" ->
            IF a.t = "str" THEN (IF b.t = "str" THEN Ok(VBool(ContainsB(a.s, b.s))) ELSE Err)
            ELSE IF a.t # "set" THEN Err
            ELSE IF b.t = "set" THEN Ok(VBool(SubsetSeq(b.e, a.e)))
            ELSE Ok(VBool(Mem(b, a.e)))
      [] o = "prefix" -> IF a.t = "str" /\ b.t = "str" THEN Ok(VBool(IsPrefixB(b.s, a.s))) ELSE Err
      [] o = "suffix" -> IF a.t = "str" /\ b.t = "str" THEN Ok(VBool(IsSuffixB(b.s, a.s))) ELSE Err
      [] o = "regex"  -> IF a.t = "str" /\ b.t = "str" THEN Regex(a.s, b.s) ELSE Err
      [] o = "add" -> IF a.t = "str" /\ b.t = "str" THEN Ok(VStr(a.s \o b.s))
                      ELSE IF a.t = "int" /\ b.t = "int" THEN Fit(AddI(a.i, b.i))
                      ELSE Err
      [] o = "sub" -> IF a.t = "int" /\ b.t = "int" THEN Fit(SubI(a.i, b.i)) ELSE Err
      [] o = "mul" -> IF a.t = "int" /\ b.t = "int" THEN Fit(MulI(a.i, b.i)) ELSE Err
      [] o = "div" -> IF a.t = "int" /\ b.t = "int"
                      THEN (IF b.i.m = <<>> THEN Err ELSE Fit(DivI(a.i, b.i)))
                      ELSE Err
      [] o = "and" -> IF a.t = "bool" /\ b.t = "bool" THEN Ok(VBool(a.b /\ b.b)) ELSE Err
      [] o = "or"  -> IF a.t = "bool" /\ b.t = "bool" THEN Ok(VBool(a.b \/ b.b)) ELSE Err
      [] o = "inter" -> IF a.t = "set" /\ b.t = "set"
                        THEN (IF SetOk(a) /\ SetOk(b) THEN Ok(VSet(SelectSeqMem(a.e, b.e, TRUE))) ELSE Any)
                        ELSE Err
      [] o = "union" -> IF a.t = "set" /\ b.t = "set"
                        THEN (IF SetOk(a) /\ SetOk(b) THEN Ok(VSet(a.e \o SelectSeqMem(b.e, a.e, FALSE))) ELSE Any)
                        ELSE Err
      [] OTHER -> Err

Bound(env, n)  == \E i \in 1..Len(env) : env[i].n = n
Lookup(env, n) == env[CHOOSE i \in 1..Len(env) : env[i].n = n].v

RECURSIVE Run(_, _, _, _)
Run(ops, env, pc, st) ==
    IF pc > Len(ops) THEN (IF Len(st) = 1 THEN Ok(st[1]) ELSE Err)
    ELSE LET op == ops[pc] IN
         CASE op.k = "val" -> IF Len(st) >= MaxStack THEN Err ELSE Run(ops, env, pc + 1, Append(st, op.v))
           [] op.k = "var" -> IF ~Bound(env, op.n) \/ Len(st) >= MaxStack THEN Err
                              ELSE Run(ops, env, pc + 1, Append(st, Lookup(env, op.n)))
           [] op.k = "un"  -> IF Len(st) < 1 THEN Err
                              ELSE LET r == Unary(op.o, st[Len(st)])
                                   IN IF r.k # "ok" THEN r ELSE Run(ops, env, pc + 1, Append(Front(st), r.v))
           [] op.k = "bin" -> IF Len(st) < 2 THEN Err
                              ELSE LET r == Binary(op.o, st[Len(st) - 1], st[Len(st)])
                                   IN IF r.k # "ok" THEN r
                                      ELSE Run(ops, env, pc + 1, Append(SubSeq(st, 1, Len(st) - 2), r.v))
           [] OTHER -> Err

Eval(ops, env) == Run(ops, env, 1, <<>>)

\* does an observation (ok / err / panic) agree with what the specification denotes?
\* ("unstable": evaluating the same expression with the same operands twice gave two different results)
Agrees(exp, obs) == /\ obs.k \notin {"panic", "unstable"}
                    /\ \/ exp.k = "any"
                       \/ exp.k = "err" /\ obs.k = "err"
                       \/ exp.k = "ok" /\ obs.k = "ok" /\ ValEq(exp.v, obs.v)
                                        /\ (exp.v.t = "set" => NoDup(obs.v.e))
=============================================================================
