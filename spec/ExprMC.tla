------------------------------- MODULE ExprMC -------------------------------
(* L1 for C06: the stack machine is TOTAL.  TLC enumerates every operator   *)
(* sequence of length <= MaxLen over a value sample (well-formed or not)    *)
(* and evaluates Expr!Eval: a partial definition would make TLC fail.       *)
(* Every enumerated sequence is exported with its denotation and replayed   *)
(* on the real Evaluate (L2).                                               *)
EXTENDS Expr, TLC, Json
CONSTANT MaxLen

I(n) == VInt(FromSmall(n))
S(s) == VStr(s)
Pool == << I(0), I(3), VInt(MkI(FALSE, <<8191, 8191, 8191, 8191, 2047>>)), VInt(MkI(TRUE, <<0, 0, 0, 0, 2048>>)),
           I(-1), S(<<>>), S(<<97, 98>>), S(<<97>>), VDate(<<5>>), VBytes(<<1>>), VBool(TRUE), VBool(FALSE),
           VSet(<<I(3), I(0)>>), VSet(<<I(3)>>), VSet(<<S(<<97>>)>>) >>
Env == << [n |-> 0, v |-> I(3)] >>
Choices == [i \in 1..Len(Pool) |-> [k |-> "val", v |-> Pool[i]]]
           \o << [k |-> "var", n |-> 0], [k |-> "var", n |-> 7] >>
           \o << [k |-> "un", o |-> "neg"], [k |-> "un", o |-> "par"], [k |-> "un", o |-> "len"] >>
           \o << [k |-> "bin", o |-> "lt"], [k |-> "bin", o |-> "le"], [k |-> "bin", o |-> "gt"], [k |-> "bin", o |-> "ge"],
                 [k |-> "bin", o |-> "eq"], [k |-> "bin", o |-> "contains"], [k |-> "bin", o |-> "prefix"],
                 [k |-> "bin", o |-> "suffix"], [k |-> "bin", o |-> "regex"], [k |-> "bin", o |-> "add"],
                 [k |-> "bin", o |-> "sub"], [k |-> "bin", o |-> "mul"], [k |-> "bin", o |-> "div"],
                 [k |-> "bin", o |-> "and"], [k |-> "bin", o |-> "or"], [k |-> "bin", o |-> "inter"],
                 [k |-> "bin", o |-> "union"] >>

VARIABLE ops
Init == ops = <<>>
Next == Len(ops) < MaxLen /\ \E c \in 1..Len(Choices) : ops' = Append(ops, Choices[c])

Den == Eval(ops, Env)
Total == Den.k \in {"ok", "err", "any"}
\* results are well typed; integers never leave the 64-bit range; an empty or stack-leaving sequence is an error
Sound == /\ (Den.k = "ok" => Den.v.t \in Types)
         /\ (Den.k = "ok" /\ Den.v.t = "int" => InI64(Den.v.i) /\ IsInt(Den.v.i))
         /\ (ops = <<>> => Den.k = "err")
Export == PrintT(<<"CASE", ToJson([ops |-> ops, env |-> Env, exp |-> Den])>>)
=============================================================================
