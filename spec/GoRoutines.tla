----------------------------- MODULE GoRoutines -----------------------------
(***************************************************************************)
(* The goroutine / channel protocol of one Datalog evaluation              *)
(* (datalog.go World.Run, Rule.Apply, combine):                            *)
(*                                                                         *)
(*   caller   : starts the runner, then  select { <-ctx.Done | <-done }    *)
(*   runner   : for i < maxIterations { for each rule { Apply } ... }      *)
(*              sends exactly one value on `done`, or returns silently     *)
(*              when it notices the context expired                        *)
(*   consumer : (inside the runner) Rule.Apply ranging over channel c      *)
(*   producer : combine's goroutine sending one item per match on c        *)
(*   timer    : the context deadline, may fire at ANY step                 *)
(*                                                                         *)
(* Channels are unbuffered unless BufferedDone; a producer blocked on a    *)
(* send can only be released by a receive, or by the stop signal when      *)
(* ProducerCancellable.  With both switches FALSE this is the pinned tree: *)
(* TLC exhibits the two leaks (producer stranded after an early return of  *)
(* the consumer; runner stranded on `done <-` after the caller timed out). *)
(***************************************************************************)
EXTENDS Integers, TLC, Json

CONSTANTS BufferedDone, ProducerCancellable, ErrSendCancellable, MaxM

VARIABLES sc,    \* scenario: [need, mi, rules, m, exit, exitAt, mf]
          ctx,   \* context expired
          cpc, cres,            \* caller: "wait" | "returned", result
          rpc, it, ru, got, rres,   \* runner / consumer
          ppc, sent, stop,      \* producer, stop signal (closed when Apply returns)
          doneBuf               \* content of a buffered done channel ("empty" or a result)
vars == <<sc, ctx, cpc, cres, rpc, it, ru, got, rres, ppc, sent, stop, doneBuf>>

Scenarios ==
    [need : 1..2,          \* iteration in which the fixpoint is confirmed (no new fact)
     mi : 1..3,            \* maxIterations
     rules : 1..2,         \* rules per iteration
     m : 0..MaxM,          \* matches the producer has for each rule application
     exit : {"none", "invalid", "exprerr", "invalid+err"},   \* early exit of the consumer ("invalid+err": the consumer bails
                           \* out at item exitAt and the NEXT item the producer has is an expression-error item)
     exitAt : 1..MaxM,     \* at which received item
     mf : BOOLEAN]         \* the fact count reaches maxFacts

Init == /\ sc \in {s \in Scenarios : (s.exit # "none" => s.exitAt <= s.m) /\ (s.exit = "invalid+err" => s.exitAt < s.m)}
        /\ ctx = FALSE /\ cpc = "wait" /\ cres = "none"
        /\ rpc = "iterTop" /\ it = 1 /\ ru = 1 /\ got = 0 /\ rres = "none"
        /\ ppc = "idle" /\ sent = 0 /\ stop = FALSE /\ doneBuf = "empty"

Timer == ~ctx /\ cpc = "wait" /\ ctx' = TRUE
         /\ UNCHANGED <<sc, cpc, cres, rpc, it, ru, got, rres, ppc, sent, stop, doneBuf>>

\* ---- caller ----
CallerTimeout == /\ cpc = "wait" /\ ctx
                 /\ cpc' = "returned" /\ cres' = "timeout"
                 /\ UNCHANGED <<sc, ctx, rpc, it, ru, got, rres, ppc, sent, stop, doneBuf>>
CallerRecvBuffered == /\ cpc = "wait" /\ BufferedDone /\ doneBuf # "empty"
                      /\ cpc' = "returned" /\ cres' = doneBuf /\ doneBuf' = "empty"
                      /\ UNCHANGED <<sc, ctx, rpc, it, ru, got, rres, ppc, sent, stop>>

\* ---- runner ----
IterTop == /\ rpc = "iterTop"
           /\ IF it > sc.mi THEN rres' = "maxiter" /\ rpc' = "sendDone" /\ UNCHANGED ru
              ELSE IF ctx THEN rpc' = "exit" /\ UNCHANGED <<rres, ru>>
              ELSE rpc' = "ruleTop" /\ ru' = 1 /\ UNCHANGED rres
           /\ UNCHANGED <<sc, ctx, cpc, cres, it, got, ppc, sent, stop, doneBuf>>

RuleTop == /\ rpc = "ruleTop"
           /\ IF ru > sc.rules THEN rpc' = "afterRules" /\ UNCHANGED <<got, ppc, sent, stop>>
              ELSE IF ctx THEN rpc' = "exit" /\ UNCHANGED <<got, ppc, sent, stop>>
              ELSE rpc' = "recv" /\ got' = 0 /\ ppc' = "run" /\ sent' = 0 /\ stop' = FALSE   \* Apply: combine() spawns the producer
           /\ UNCHANGED <<sc, ctx, cpc, cres, it, ru, rres, doneBuf>>

\* consumer receives the item the producer is offering (rendezvous on the unbuffered channel c)
RecvItem == /\ rpc = "recv" /\ ppc = "send"
            /\ got' = got + 1
            /\ LET isErr == sc.exit = "exprerr" /\ got + 1 = sc.exitAt
                   bail  == sc.exit \in {"invalid", "invalid+err"} /\ got + 1 = sc.exitAt
               IN IF isErr THEN ppc' = "closed" /\ rres' = "err" /\ rpc' = "sendDone" /\ stop' = TRUE   \* producer returns after an error item
                  ELSE IF bail THEN ppc' = "run" /\ rres' = "err" /\ rpc' = "sendDone" /\ stop' = TRUE  \* consumer returns, producer keeps going
                  ELSE ppc' = "run" /\ UNCHANGED <<rres, rpc, stop>>
            /\ sent' = sent + 1
            /\ UNCHANGED <<sc, ctx, cpc, cres, it, ru, doneBuf>>
RecvClosed == /\ rpc = "recv" /\ ppc = "closed"
              /\ ru' = ru + 1 /\ rpc' = "ruleTop" /\ ppc' = "idle" /\ stop' = TRUE
              /\ UNCHANGED <<sc, ctx, cpc, cres, it, got, rres, sent, doneBuf>>

\* new facts are inserted in the iteration before the one that confirms the fixpoint: that is where maxFacts is noticed
MfAt == IF sc.need = 1 THEN 1 ELSE sc.need - 1
AfterRules == /\ rpc = "afterRules"
              /\ IF it = MfAt /\ sc.mf THEN rres' = "maxfacts" /\ rpc' = "sendDone" /\ UNCHANGED it
                 ELSE IF it = sc.need THEN rres' = "ok" /\ rpc' = "sendDone" /\ UNCHANGED it
                 ELSE it' = it + 1 /\ rpc' = "iterTop" /\ UNCHANGED rres
              /\ UNCHANGED <<sc, ctx, cpc, cres, ru, got, ppc, sent, stop, doneBuf>>

SendDone == /\ rpc = "sendDone"
            /\ IF BufferedDone THEN doneBuf = "empty" /\ doneBuf' = rres /\ UNCHANGED <<cpc, cres>>
               ELSE cpc = "wait" /\ cpc' = "returned" /\ cres' = rres /\ UNCHANGED doneBuf      \* rendezvous with the caller's select
            /\ rpc' = "exit"
            /\ UNCHANGED <<sc, ctx, it, ru, got, rres, ppc, sent, stop>>

\* ---- producer ----
Produce == /\ ppc = "run"
           /\ IF sent < sc.m THEN ppc' = "send" ELSE ppc' = "closed"
           /\ UNCHANGED <<sc, ctx, cpc, cres, rpc, it, ru, got, rres, sent, stop, doneBuf>>
\* the item being offered is an expression-error item (sent from a different statement of combine)
ErrItem == sc.exit = "invalid+err" /\ sent = sc.exitAt
Cancelled == /\ ppc = "send" /\ stop /\ (IF ErrItem THEN ErrSendCancellable ELSE ProducerCancellable)
             /\ ppc' = "closed"
             /\ UNCHANGED <<sc, ctx, cpc, cres, rpc, it, ru, got, rres, sent, stop, doneBuf>>

Sys == CallerTimeout \/ CallerRecvBuffered \/ IterTop \/ RuleTop \/ RecvItem \/ RecvClosed \/ AfterRules \/ SendDone
       \/ Produce \/ Cancelled
Next == Timer \/ Sys
Spec == Init /\ [][Next]_vars /\ WF_vars(Sys)

-----------------------------------------------------------------------------
AllExited == rpc = "exit" /\ ppc \in {"idle", "closed"}
\* C11: once the evaluation has returned and nothing can move any more, no goroutine is left blocked
NoStranded == (cpc = "returned" /\ ~ENABLED Sys) => AllExited
\* the caller always gets an answer, and every goroutine eventually terminates
CallerReturns == <>(cpc = "returned")
EventuallyQuiet == <>[]AllExited
\* a success is only reported when the fixpoint iteration was completed within the limits
NoFalseSuccess == cres = "ok" => sc.need <= sc.mi /\ ~sc.mf /\ sc.exit = "none"
\* limit errors are the right ones
RightSentinel == /\ cres = "maxiter" => sc.need > sc.mi
                 /\ cres = "maxfacts" => sc.mf
                 /\ cres = "err" => sc.exit # "none"

Nominal == IF sc.exit # "none" /\ sc.m >= 1 /\ sc.exitAt <= sc.m THEN "err"
           ELSE IF sc.mf /\ MfAt <= sc.mi THEN "maxfacts" ELSE IF sc.need > sc.mi THEN "maxiter" ELSE "ok"
Export == (cpc = "returned" /\ ~ENABLED Sys) =>
             PrintT(<<"CASE", ToJson([sc |-> sc, timer |-> ctx, res |-> cres, nominal |-> Nominal])>>)
=============================================================================
