------------------------------- MODULE Grammar -------------------------------
(***************************************************************************)
(* The documented Datalog text grammar (parser/GRAMMAR.md) as a GENERATOR  *)
(* with a denotation (C14, C15).                                           *)
(*                                                                         *)
(* Expressions are abstract syntax trees; the documented table             *)
(*     !  >  * /  >  + -  >  < <= > >= == (not associative)  >  &&  >  ||  *)
(* with method calls binding tightest and left associativity is written    *)
(* ONCE as Lvl / Need.  Render(t) is the token list of t with exactly the  *)
(* parentheses the table makes necessary (explicit "par" nodes add         *)
(* redundant ones); Postfix(t) is the operator sequence the parser must    *)
(* emit (a Parens operator per pair of parentheses, documented as          *)
(* "parentheses preserved").  The theorem Denotes -- running the stack     *)
(* machine of Expr.tla on Postfix(t) gives the value of the tree --        *)
(* ties the expected structure to precedence and associativity.            *)
(***************************************************************************)
EXTENDS Expr, TLC, Json

CONSTANTS MaxNodes, NLeaves

\* ---- leaves: token text and value --------------------------------------------------------
I(n) == VInt(FromSmall(n))
Leaves == << [tok |-> "1", v |-> I(1)], [tok |-> "true", v |-> VBool(TRUE)], [tok |-> "\"ab\"", v |-> VStr(<<97, 98>>)],
             [tok |-> "$x", v |-> I(3)],                                   \* a variable, bound to 3
             [tok |-> "[1, 2]", v |-> VSet(<<I(1), I(2)>>)], [tok |-> "2", v |-> I(2)], [tok |-> "false", v |-> VBool(FALSE)],
             [tok |-> "\"a\"", v |-> VStr(<<97>>)], [tok |-> "7", v |-> I(7)] >>
Leaf(i) == [k |-> "leaf", i |-> i]

BinLvl(o) == CASE o = "or" -> 1 [] o = "and" -> 2
               [] o \in {"lt", "le", "gt", "ge", "eq"} -> 3
               [] o \in {"add", "sub"} -> 4 [] o \in {"mul", "div"} -> 5
BinTok(o) == CASE o = "or" -> "||" [] o = "and" -> "&&" [] o = "lt" -> "<" [] o = "le" -> "<=" [] o = "gt" -> ">" [] o = "ge" -> ">="
               [] o = "eq" -> "==" [] o = "add" -> "+" [] o = "sub" -> "-" [] o = "mul" -> "*" [] o = "div" -> "/"
BinOpsG == {"or", "and", "lt", "le", "gt", "ge", "eq", "add", "sub", "mul", "div"}
Methods == {"contains", "prefix", "suffix", "regex", "inter", "union"}
MethTok(m) == CASE m = "contains" -> "contains" [] m = "prefix" -> "starts_with" [] m = "suffix" -> "ends_with" [] m = "regex" -> "matches"
                [] m = "inter" -> "intersection" [] m = "union" -> "union"

Lvl(t) == CASE t.k = "leaf" -> 8 [] t.k = "par" -> 8 [] t.k \in {"meth", "len"} -> 7 [] t.k = "neg" -> 6 [] t.k = "bin" -> BinLvl(t.o)
\* minimal level a child must have at a position, from the documented table
NeedL(t) == IF BinLvl(t.o) = 3 THEN 4 ELSE BinLvl(t.o)            \* left operand (comparisons do not chain)
NeedR(t) == BinLvl(t.o) + 1                                        \* right operand: left associativity

RECURSIVE Render(_), Postfix(_), EvalT(_)
Wrap(c, need) == IF Lvl(c) < need THEN <<"(">> \o Render(c) \o <<")">> ELSE Render(c)
PWrap(c, need) == IF Lvl(c) < need THEN Postfix(c) \o << [k |-> "un", o |-> "par"] >> ELSE Postfix(c)
Render(t) ==
    CASE t.k = "leaf" -> << Leaves[t.i].tok >>
      [] t.k = "par" -> <<"(">> \o Render(t.a) \o <<")">>
      [] t.k = "neg" -> <<"!">> \o Wrap(t.a, 7)
      [] t.k = "len" -> Wrap(t.a, 7) \o <<".", "length", "(", ")">>
      [] t.k = "meth" -> Wrap(t.a, 7) \o <<".", MethTok(t.m), "(">> \o Render(t.b) \o <<")">>
      [] t.k = "bin" -> Wrap(t.l, NeedL(t)) \o << BinTok(t.o) >> \o Wrap(t.r, NeedR(t))
Postfix(t) ==
    CASE t.k = "leaf" -> IF Leaves[t.i].tok = "$x" THEN << [k |-> "var", n |-> 0] >> ELSE << [k |-> "val", v |-> Leaves[t.i].v] >>
      [] t.k = "par" -> Postfix(t.a) \o << [k |-> "un", o |-> "par"] >>
      [] t.k = "neg" -> PWrap(t.a, 7) \o << [k |-> "un", o |-> "neg"] >>
      [] t.k = "len" -> PWrap(t.a, 7) \o << [k |-> "un", o |-> "len"] >>
      [] t.k = "meth" -> PWrap(t.a, 7) \o Postfix(t.b) \o << [k |-> "bin", o |-> t.m] >>
      [] t.k = "bin" -> PWrap(t.l, NeedL(t)) \o PWrap(t.r, NeedR(t)) \o << [k |-> "bin", o |-> t.o] >>
\* value of the tree, computed structurally (errors / open corners propagate)
Lift1(o, a) == IF a.k # "ok" THEN a ELSE Unary(o, a.v)
Lift2(o, a, b) == IF a.k # "ok" THEN a ELSE IF b.k # "ok" THEN b ELSE Binary(o, a.v, b.v)
EvalT(t) ==
    CASE t.k = "leaf" -> Ok(Leaves[t.i].v)
      [] t.k = "par" -> EvalT(t.a)
      [] t.k = "neg" -> Lift1("neg", EvalT(t.a))
      [] t.k = "len" -> Lift1("len", EvalT(t.a))
      [] t.k = "meth" -> Lift2(t.m, EvalT(t.a), EvalT(t.b))
      [] t.k = "bin" -> Lift2(t.o, EvalT(t.l), EvalT(t.r))

Env == << [n |-> 0, v |-> I(3)] >>
\* the denotation theorem: the postfix form the parser must produce evaluates to the value of the tree
Same(a, b) == a.k = b.k /\ (a.k = "ok" => ValEq(a.v, b.v))
Denotes(t) == LET p == Eval(Postfix(t), Env) e == EvalT(t) IN
              \/ Same(p, e)
              \/ (p.k \in {"err", "any"} /\ e.k \in {"err", "any"})     \* which operand fails first is not part of the denotation

\* ---- all trees with exactly n operator nodes (recursive FUNCTION: memoised by TLC) --------
LeafSet == {Leaf(i) : i \in 1..NLeaves}
Trees[n \in 0..MaxNodes] ==
    IF n = 0 THEN LeafSet
    ELSE {[k |-> "neg", a |-> a] : a \in Trees[n - 1]}
         \cup {[k |-> "len", a |-> a] : a \in Trees[n - 1]}
         \cup {[k |-> "par", a |-> a] : a \in Trees[n - 1]}
         \cup UNION {{[k |-> "bin", o |-> o, l |-> l, r |-> r] : o \in BinOpsG, l \in Trees[i], r \in Trees[n - 1 - i]} : i \in 0..(n - 1)}
         \cup UNION {{[k |-> "meth", m |-> m, a |-> a, b |-> b] : m \in Methods, a \in Trees[i], b \in Trees[n - 1 - i]} : i \in 0..(n - 1)}

VARIABLES tree
Init == tree \in UNION {Trees[n] : n \in 0..MaxNodes}
Next == UNCHANGED tree
Spec == Init /\ [][Next]_tree
DenotesInv == Denotes(tree)
\* rendering is unambiguous: the token list determines the expected structure
Export == PrintT(<<"CASE", ToJson([toks |-> Render(tree), ops |-> Postfix(tree), val |-> EvalT(tree).k])>>)
=============================================================================
