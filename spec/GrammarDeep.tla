----------------------------- MODULE GrammarDeep -----------------------------
(* Deeper expression trees than the exhaustive Grammar configurations reach:  *)
(* each state carries a tree drawn at random by descending the grammar        *)
(* (nesting depth <= Depth, i.e. up to 2^Depth - 1 operators, redundant       *)
(* parentheses included).  Denotes is checked on every drawn tree and the     *)
(* tree is exported for replay on the real parser (C14) and printer (C15).    *)
EXTENDS Grammar

CONSTANTS Depth, Sample

Pick(S) == RandomElement(S)
RECURSIVE RandTree(_)
RandTree(d) ==
    IF d = 0 THEN Leaf(Pick(1..NLeaves))
    ELSE LET c == Pick(1..10) IN
         CASE c = 1 -> Leaf(Pick(1..NLeaves))
           [] c = 2 -> [k |-> "neg", a |-> RandTree(d - 1)]
           [] c = 3 -> [k |-> "len", a |-> RandTree(d - 1)]
           [] c = 4 -> [k |-> "par", a |-> RandTree(d - 1)]
           [] c \in {5, 6} -> [k |-> "meth", m |-> Pick(Methods), a |-> RandTree(d - 1), b |-> RandTree(d - 1)]
           [] OTHER -> [k |-> "bin", o |-> Pick(BinOpsG), l |-> RandTree(d - 1), r |-> RandTree(d - 1)]

VARIABLES n, lane
dvars == <<tree, n, lane>>
DInit == lane \in 1..16 /\ n = 1 /\ tree = RandTree(Depth)
DNext == n < Sample /\ n' = n + 1 /\ tree' = RandTree(Depth) /\ UNCHANGED lane
DSpec == DInit /\ [][DNext]_dvars
=============================================================================
