---------------------------- MODULE GrammarElems ----------------------------
(***************************************************************************)
(* The element level of the documented grammar (parser/GRAMMAR.md): terms  *)
(* of every kind, parameters, predicates, facts, rules, checks with `or`,  *)
(* policies, blocks and authorizers, each generated as a token list WITH   *)
(* its denotation (the facts / rules / checks / policies it stands for),   *)
(* and the documented error classes (expected: an error, never a panic).   *)
(* Expressions inside elements come from Grammar!Render / Postfix.          *)
(***************************************************************************)
EXTENDS Grammar

\* term catalogue: token text and denotation
T(k, x) == [k |-> k, x |-> x]
S(k, s) == [k |-> k, s |-> s]
TermCat == << [tok |-> "42", t |-> S("int", "42")],
              [tok |-> "\"hi there\"", t |-> T("str", "hi there")],
              [tok |-> "$v", t |-> T("var", "v")],
              [tok |-> "2023-01-02T03:04:05Z", t |-> S("date", "1672628645")],
              [tok |-> "hex:0aff", t |-> S("bytes", "0aff")],
              [tok |-> "true", t |-> S("bool", "true")],
              [tok |-> "[1, 2]", t |-> [k |-> "set", e |-> << S("int", "1"), S("int", "2") >>]],
              [tok |-> "[\"a\", \"read\"]", t |-> [k |-> "set", e |-> << T("str", "a"), T("str", "read") >>]],
              [tok |-> "{p}", t |-> S("int", "7")],                       \* parameter p := 7
              [tok |-> "0", t |-> S("int", "0")],
              [tok |-> "\"\"", t |-> T("str", "")],
              [tok |-> "2006-01-02T15:04:05+07:00", t |-> S("date", "1136189045")],
              [tok |-> "hex:", t |-> S("bytes", "")],
              [tok |-> "hex:e1ab", t |-> S("bytes", "e1ab")],
              [tok |-> "2024-12-31T23:59:59Z", t |-> S("date", "1735689599")],
              [tok |-> "1970-01-01T00:00:00Z", t |-> S("date", "0")],
              [tok |-> "hex:EE00ff", t |-> S("bytes", "ee00ff")],
              [tok |-> "9223372036854775807", t |-> S("int", "9223372036854775807")],
              [tok |-> "$0", t |-> T("var", "0")],
              [tok |-> "\"héllo wörld /path/to_file-1.txt\"", t |-> T("str", "héllo wörld /path/to_file-1.txt")],
              \* the lexer's string is any run of characters but the quote: a raw line break is part of the value;
              \* backslash escapes denote the usual characters
              [tok |-> "\"line one\nline two\"", t |-> T("str", "line one\nline two")],
              [tok |-> "\"tab\\there \\\\ back\"", t |-> T("str", "tab\there \\ back")] >>
GroundTerms == {i \in 1..Len(TermCat) : TermCat[i].t.k # "var"}

Pred(name, ts) == [name |-> name, terms |-> ts]
PredToks(name, idxs) ==
    LET RECURSIVE args(_) args(s) == IF s = <<>> THEN <<>> ELSE IF Len(s) = 1 THEN <<TermCat[s[1]].tok>> ELSE <<TermCat[s[1]].tok, ",">> \o args(Tail(s))
    IN <<name, "(">> \o args(idxs) \o <<")">>
PredDen(name, idxs) == Pred(name, [i \in 1..Len(idxs) |-> TermCat[idxs[i]].t])

\* expression used inside rule bodies / queries: a Grammar tree over the leaves
ExprTrees == UNION {Trees[n] : n \in 0..1}

VARIABLES kind, a, b, ex, kw
evars == <<kind, a, b, ex, kw, tree>>
EInit == /\ tree = Leaf(1)
         /\ kind \in {"fact", "rule", "check", "policy", "block", "authorizer", "check0", "rule0"}
         /\ a \in 1..Len(TermCat) /\ b \in 1..Len(TermCat)
         /\ ex \in {Leaf(1)} \cup {t \in ExprTrees : t.k = "bin" /\ t.o \in {"eq", "lt", "and"} /\ t.l = Leaf(1)}
         /\ kw \in {"allow", "deny"}
         /\ (kind = "fact" => a \in GroundTerms /\ b \in GroundTerms /\ ex = Leaf(1) /\ kw = "allow")
         /\ (kind \in {"rule", "check", "block"} => kw = "allow")
         /\ (kind \in {"check0", "rule0"} => a \in GroundTerms /\ b = 1 /\ kw = "allow")
         /\ (kind \in {"block", "authorizer"} => a \in GroundTerms /\ b = 3)
ENext == UNCHANGED evars
ESpec == EInit /\ [][ENext]_evars

Q(body, exprs) == [head |-> Pred("query", <<>>), body |-> body, exprs |-> exprs]
FactToks == PredToks("right", <<a, b>>)
FactDen == PredDen("right", <<a, b>>)
\* rule: allowed($v) <- right($v, A), res(B), <expr>
RuleToks == PredToks("allowed", <<3>>) \o <<"<-">> \o PredToks("right", <<3, a>>) \o <<",">> \o PredToks("res", <<b>>) \o <<",">> \o Render(ex)
RuleDen == [head |-> PredDen("allowed", <<3>>), body |-> << PredDen("right", <<3, a>>), PredDen("res", <<b>>) >>, exprs |-> << Postfix(ex) >>]
\* check: check if right($v, A), <expr> or res(B)
CheckToks == <<"check if">> \o PredToks("right", <<3, a>>) \o <<",">> \o Render(ex) \o <<"or">> \o PredToks("res", <<b>>)
CheckDen == << Q(<< PredDen("right", <<3, a>>) >>, << Postfix(ex) >>), Q(<< PredDen("res", <<b>>) >>, <<>>) >>
\* bodies WITHOUT predicates: check if <expr>, <expr> or <expr>, <expr>      allowed(A) <- <expr>, <expr>
Check0Toks == <<"check if">> \o Render(ex) \o <<",">> \o Render(ex) \o <<"or">> \o Render(ex) \o <<",">> \o Render(ex)
Check0Den == << Q(<<>>, << Postfix(ex), Postfix(ex) >>), Q(<<>>, << Postfix(ex), Postfix(ex) >>) >>
Rule0Toks == PredToks("allowed", <<a>>) \o <<"<-">> \o Render(ex) \o <<",">> \o Render(ex)
Rule0Den == [head |-> PredDen("allowed", <<a>>), body |-> <<>>, exprs |-> << Postfix(ex), Postfix(ex) >>]
PolicyToks == << kw \o " if" >> \o PredToks("res", <<b>>) \o <<"or">> \o Render(ex) \o <<",">> \o PredToks("right", <<3, a>>)
PolicyDen == [kind |-> kw, q |-> << Q(<< PredDen("res", <<b>>) >>, <<>>), Q(<< PredDen("right", <<3, a>>) >>, << Postfix(ex) >>) >>]
BlockToks == PredToks("right", <<a, a>>) \o <<";">> \o RuleToks \o <<";">> \o CheckToks \o <<";">>
BlockDen == [facts |-> << PredDen("right", <<a, a>>) >>, rules |-> << RuleDen >>, checks |-> << CheckDen >>]
AuthToks == BlockToks \o PolicyToks \o <<";">>

EExport == PrintT(<<"CASE", ToJson(
    CASE kind = "fact" -> [kind |-> kind, toks |-> FactToks, fact |-> FactDen]
      [] kind = "rule" -> [kind |-> kind, toks |-> RuleToks, rule |-> RuleDen]
      [] kind = "check" -> [kind |-> kind, toks |-> CheckToks, check |-> CheckDen]
      [] kind = "check0" -> [kind |-> "check", toks |-> Check0Toks, check |-> Check0Den]
      [] kind = "rule0" -> [kind |-> "rule", toks |-> Rule0Toks, rule |-> Rule0Den]
      [] kind = "policy" -> [kind |-> kind, toks |-> PolicyToks, policy |-> PolicyDen]
      [] kind = "block" -> [kind |-> kind, toks |-> BlockToks, block |-> BlockDen]
      [] kind = "authorizer" -> [kind |-> kind, toks |-> AuthToks, block |-> BlockDen, policy |-> PolicyDen])>>)

\* ---- the error classes the property names (unbound parameters, malformed date / byte literals, variables inside sets,
\* chained comparisons): every one must be reported as an error.  Other texts outside the grammar (double negation, a
\* variable in a fact, ...) are only required not to panic and are exercised by the token-level corruptions. ----------
ErrCases == <<
  [kind |-> "fact",  why |-> "unbound parameter in a predicate", toks |-> <<"right", "(", "{nope}", ")">>],
  [kind |-> "check", why |-> "unbound parameter in an expression", toks |-> <<"check if", "right", "(", "$v", ")", ",", "$v", "==", "{nope}">>],
  [kind |-> "rule",  why |-> "unbound parameter in an expression", toks |-> <<"a", "(", "$v", ")", "<-", "right", "(", "$v", ")", ",", "{nope}", "<", "3">>],
  [kind |-> "policy", why |-> "unbound parameter in an expression", toks |-> <<"allow if", "right", "(", "$v", ")", ",", "$v", ".", "contains", "(", "{nope}", ")">>],
  [kind |-> "fact",  why |-> "malformed date in a predicate", toks |-> <<"right", "(", "2023-13-45T99:00:00Z", ")">>],
  [kind |-> "check", why |-> "malformed date in an expression", toks |-> <<"check if", "time", "(", "$v", ")", ",", "$v", "<", "2023-13-45T99:00:00Z">>],
  [kind |-> "fact",  why |-> "variable inside a set (predicate)", toks |-> <<"right", "(", "[", "$v", "]", ")">>],
  [kind |-> "check", why |-> "variable inside a set (expression)", toks |-> <<"check if", "right", "(", "$v", ")", ",", "[", "$v", "]", ".", "contains", "(", "1", ")">>],
  [kind |-> "check", why |-> "chained comparison", toks |-> <<"check if", "1", "<", "2", "<", "3">>],
  [kind |-> "check", why |-> "chained equality", toks |-> <<"check if", "1", "==", "1", "==", "true">>],
  [kind |-> "block", why |-> "unbound parameter inside a block", toks |-> <<"right", "(", "1", ")", ";", "check if", "right", "(", "$v", ")", ",", "$v", "==", "{nope}", ";">>],
  [kind |-> "authorizer", why |-> "unbound parameter inside an authorizer policy", toks |-> <<"allow if", "right", "(", "$v", ")", ",", "$v", "==", "{nope}", ";">>],
  [kind |-> "fact",  why |-> "odd-length hex literal", toks |-> <<"right", "(", "hex:abc", ")">>],
  [kind |-> "check", why |-> "malformed byte literal in an expression", toks |-> <<"check if", "right", "(", "$v", ")", ",", "$v", "==", "hex:zz">>] >>
ErrExport == (kind = "fact" /\ a = 1 /\ b = 1) =>
    \A i \in 1..Len(ErrCases) : PrintT(<<"CASE", ToJson([kind |-> ErrCases[i].kind, toks |-> ErrCases[i].toks, why |-> ErrCases[i].why, experr |-> TRUE])>>)
=============================================================================
