------------------------------ MODULE Lifecycle ------------------------------
(***************************************************************************)
(* The authorizer OBJECT over time (authorizer.go): New, Add*, Authorize,  *)
(* Query, Reset, SerializePolicies (Save), LoadPolicies (Load).            *)
(*                                                                         *)
(* State of one authorizer:                                                *)
(*   [tok, wf (world facts), wr (world rules), c, p, dirty, bf, br (base)] *)
(* Each action appends the operation and the observation the specification *)
(* predicts to `hist`; complete histories are exported and replayed on the *)
(* real library (C13, C18).                                                *)
(*                                                                         *)
(* BaseOverwritten = TRUE models authorizer.go:270-271 of the pinned tree  *)
(* (base world := evaluated world after a successful Authorize); FALSE is  *)
(* the behaviour the property C13 requires.  ResetClean fails for TRUE.    *)
(***************************************************************************)
EXTENDS Authz, TLC, Json

CONSTANTS BaseOverwritten, Rounds_, Shape,  \* Shape: "reset" / "loadreset" (C13) or "snapshot" (C18)
          Lims,                             \* run limits an authorizer may be created with (WithWorldOptions); {NoLimit} = none
          ResetKeepsLimits                  \* FALSE: Reset builds a world with the default limits (negative model)

G(o, l, r) == [o |-> o, l |-> l, r |-> r]
\* predicates 0 = op/1 ("operation"), 1 = ok/1; constants 0 = read, 1 = write
Toks == << [auth |-> [f |-> <<>>, r |-> <<>>, c |-> <<>>], blocks |-> <<>>],
           [auth |-> [f |-> << <<1, 0>> >>, r |-> <<>>, c |-> << << Q(<< <<0, 0>> >>, <<>>) >> >>], blocks |-> <<>>],     \* ok(0); check if op(0)
           [auth |-> [f |-> <<>>, r |-> << R(<<1, -1>>, << <<0, -1>> >>, <<>>) >>, c |-> <<>>],                           \* ok(x) <- op(x)
            blocks |-> << [f |-> <<>>, r |-> <<>>, c |-> << << Q(<< <<1, 0>> >>, <<>>) >> >>] >>] >>                       \* block: check if ok(0)
FactCat == << <<0, 0>>, <<0, 1>> >>                                   \* op(read), op(write)
RuleCat == << R(<<1, 1>>, << <<0, 0>> >>, <<>>),                        \* ok(1) <- op(0)
             R(<<1, 0>>, << <<0, 0>> >>, << G("E", 0, 0) >>) >>          \* fails whenever op(read) is present: evaluation aborts
CheckCat == << << Q(<< <<0, 1>> >>, <<>>) >>,                          \* check if op(write)
              << Q(<< <<1, 0>> >>, <<>>) >> >>                          \* check if ok(read): satisfied by TOKEN facts only, so its symbols
                                                                         \* may occur nowhere else in the authorizer
PolLists == << << [kind |-> "allow", q |-> << Q(<< <<0, 0>> >>, <<>>) >>] >>,                      \* allow if op(read)
               << [kind |-> "deny", q |-> << Q(<< <<1, 1>> >>, <<>>) >>], [kind |-> "allow", q |-> << Q(<<>>, <<>>) >>] >> >>
Queries == << R(<<11, -1>>, << <<0, -1>> >>, <<>>), R(<<11, -1>>, << <<1, -1>> >>, <<>>) >>

SetToSeqL(S) == LET RECURSIVE f(_) f(X) == IF X = {} THEN <<>> ELSE LET x == CHOOSE x \in X : TRUE IN <<x>> \o f(X \ {x}) IN f(S)
Opt(cat, i) == IF i = 0 THEN <<>> ELSE <<cat[i]>>
Content(f, r, c, p) == [f |-> Opt(FactCat, f), r |-> Opt(RuleCat, r), c |-> Opt(CheckCat, c), p |-> PolLists[p]]
Contents == {Content(f, r, c, p) : f \in 0..2, r \in 0..2, c \in 0..(IF Shape \in {"snapshot", "resnapshot"} THEN 2 ELSE 1), p \in 1..2}

NewL(t, lim) == [tok |-> t, wf |-> {}, wr |-> <<>>, c |-> <<>>, p |-> <<>>, dirty |-> FALSE, bf |-> {}, br |-> <<>>, lim |-> lim]
New(t) == NewL(t, NoLimit)
LimsNone == {NoLimit}
LimsSmall == {[mf |-> 1, mi |-> 1000000], [mf |-> 2, mi |-> 1000000], [mf |-> 3, mi |-> 1000000]}
None == [tok |-> 0]

Add(a, x) == [a EXCEPT !.wf = @ \cup SeqSet(x.f), !.wr = @ \o x.r, !.c = @ \o x.c, !.p = @ \o x.p]
AsAz(a) == [f |-> SetToSeqL(a.wf), r |-> a.wr, c |-> a.c, p |-> a.p]
\* Authorize on the current state (error-free fragment: catalogues contain no failing rule)
-----------------------------------------------------------------------------
VARIABLES az,     \* az[s]: authorizer in slot s (1, 2) or None
          snap,   \* saved policies ([ok |-> FALSE] before Save)
          hist, round, stage
vars == <<az, snap, hist, round, stage>>

\* Proc starts from S0(az) = facts of az.f; here the world already holds facts: thread them through
ProcOn(a) == LET z == [f |-> <<>>, r |-> a.wr, c |-> a.c, p |-> a.p, lim |-> a.lim]
                 s0 == [S0(z) EXCEPT !.world = a.wf]
                 tok == Toks[a.tok]
                 s1 == RunWorld(LoadAuthority(s0, tok))
                 s2 == AuthChecks(AzChecks(s1, z), tok)
                 s3 == Policies(s2, z)
             IN Blocks(ResetRules(s3), tok, 1)

\* an evaluation that aborts in the authority-level run leaves the loaded token content in the world, rules included,
\* and the authorizer is NOT marked evaluated; an abort in a later block happens after the rules were dropped
AfterAuthorize(a) ==
    LET s == ProcOn(a) v == VerdictOf(s)
        tok == Toks[a.tok]
        F0 == a.wf \cup SeqSet(tok.auth.f)  R0 == a.wr \o tok.auth.r
        firstRunFails == RunFails(F0, R0) \/ HitsLimit(F0, R0, a.lim)
        b == IF firstRunFails THEN [a EXCEPT !.wf = @ \cup SeqSet(tok.auth.f), !.wr = @ \o tok.auth.r]
             ELSE [a EXCEPT !.wf = s.world, !.wr = <<>>, !.dirty = TRUE]
    IN IF BaseOverwritten /\ v \in {"ok", "denied", "nomatch"} THEN [b EXCEPT !.bf = s.world, !.br = <<>>] ELSE b
QFails(a) == RunFails(a.wf, a.wr) \/ HitsLimit(a.wf, a.wr, a.lim)
AfterQuery(a) == IF QFails(a) THEN a ELSE [a EXCEPT !.wf = Lfp(a.wf, a.wr), !.dirty = TRUE]
AfterReset(a) == [a EXCEPT !.wf = a.bf, !.wr = a.br, !.c = <<>>, !.p = <<>>, !.dirty = FALSE, !.lim = IF ResetKeepsLimits THEN @ ELSE NoLimit]
SnapOf(a) == [ok |-> TRUE, f |-> a.wf, r |-> a.wr, c |-> a.c, p |-> a.p]
AfterLoad(a, sn) == [a EXCEPT !.wf = @ \cup sn.f, !.wr = @ \o sn.r, !.c = sn.c, !.p = sn.p]

\* an evaluation that reaches a limit EXACTLY may go either way (C11 leaves the boundary to the implementation): such
\* evaluations are not part of the exported histories.  A limit failure leaves a partially evaluated world behind, which
\* only Reset cleans: nothing is observed between a limit failure and the next Reset.
EdgeAuth(a) == LET tok == Toks[a.tok]  F0 == a.wf \cup SeqSet(tok.auth.f)  R0 == a.wr \o tok.auth.r
                   st == RunStatus(F0, R0, a.lim)
               IN \/ st = "either"
                  \/ st = "ok" /\ \E i \in 1..Len(tok.blocks) : RunStatus(Lfp(F0, R0) \cup SeqSet(tok.blocks[i].f), tok.blocks[i].r, a.lim) = "either"
EdgeQuery(a) == RunStatus(a.wf, a.wr, a.lim) = "either"
LimitFailsAuth(a) == a.lim # NoLimit /\ VerdictOf(ProcOn(a)) = "other"
LimitFailsQuery(a) == a.lim # NoLimit /\ QFails(a)

Log(op) == hist' = Append(hist, op)
H(op, slot, arg, exp) == [op |-> op, a |-> slot, arg |-> arg, exp |-> exp]

Init == /\ \E t \in 1..Len(Toks), lim \in Lims : az = <<NewL(t, lim), None>> /\ hist = << H("new", 1, [t |-> t, lim |-> lim], [ok |-> TRUE]) >>
        /\ snap = [ok |-> FALSE] /\ round = 1 /\ stage = "add"

\* "loadreset": the round's content arrives as a snapshot made by a throw-away authorizer (slot 2) and LoadPolicies
LoadContents == {Content(f, r, 0, p) : f \in 0..2, r \in 0..1, p \in 1..2}
DoLoadRound == /\ stage = "add" /\ Shape \in {"loadreset", "mixed"}      \* "mixed": every round either adds directly or loads
               /\ \E x \in LoadContents :
                    LET helper == Add(New(az[1].tok), x) IN
                    /\ az' = [az EXCEPT ![1] = AfterLoad(@, SnapOf(helper)), ![2] = helper]
                    /\ hist' = hist \o << H("new", 2, [t |-> az[1].tok], [ok |-> TRUE]), H("add", 2, x, [ok |-> TRUE]),
                                          H("save", 2, [x |-> 0], [ok |-> TRUE]), H("load", 1, [x |-> 0], [ok |-> TRUE]) >>
               /\ stage' = "eval" /\ UNCHANGED <<snap, round>>

DoAdd == /\ stage = "add" /\ Shape # "loadreset"
         /\ \E x \in Contents : az' = [az EXCEPT ![1] = Add(@, x)] /\ Log(H("add", 1, x, [ok |-> TRUE]))
         /\ stage' = "eval" /\ UNCHANGED <<snap, round>>

DoAuthorize(s) == /\ az' = [az EXCEPT ![s] = AfterAuthorize(@)]
                  /\ Log(H("authorize", s, [x |-> 0], [v |-> {VerdictOf(ProcOn(az[s]))}]))
QueryExp(a, q) == IF QFails(a) THEN [qerr |-> TRUE]
                  ELSE [rows |-> SetToSeqL(Conseq(Queries[q], Lfp(a.wf, a.wr)))]
DoQuery(s, q) == /\ az' = [az EXCEPT ![s] = AfterQuery(@)]
                 /\ Log(H("query", s, Queries[q], QueryExp(az[s], q)))

\* with limits configured, only histories in which some evaluation fails are of interest (the others are the NoLimit ones)
HadFailure == \E i \in 1..Len(hist) : \/ hist[i].op = "authorize" /\ hist[i].exp.v = {"other"}
                                      \/ hist[i].op = "query" /\ "qerr" \in DOMAIN hist[i].exp
Interesting(failsNow) == (Lims # LimsNone /\ round = Rounds_) => (HadFailure \/ failsNow)
Eval == /\ stage = "eval"
        /\ \/ ~EdgeAuth(az[1]) /\ Interesting(LimitFailsAuth(az[1])) /\ DoAuthorize(1)
              /\ stage' = IF round = Rounds_ THEN (IF Shape \in {"reset", "loadreset", "mixed"} THEN (IF LimitFailsAuth(az[1]) THEN "done" ELSE "final") ELSE "save") ELSE "reset"
           \/ \E q \in 1..Len(Queries) : ~EdgeQuery(az[1]) /\ Interesting(LimitFailsQuery(az[1])) /\ DoQuery(1, q)
              /\ stage' = IF round = Rounds_ THEN (IF Shape \in {"reset", "loadreset", "mixed"} THEN (IF LimitFailsQuery(az[1]) THEN "done" ELSE "final") ELSE "save") ELSE "reset"
        /\ UNCHANGED <<snap, round>>
SkipEval == /\ stage = "eval" /\ Shape \in {"snapshot", "resnapshot"} /\ stage' = "save" /\ UNCHANGED <<az, snap, hist, round>>
\* C13: content added but never evaluated before Reset
SkipEvalReset == /\ stage = "eval" /\ Shape \in {"reset", "loadreset", "mixed"} /\ round < Rounds_ /\ stage' = "reset" /\ UNCHANGED <<az, snap, hist, round>>

DoReset == /\ stage = "reset"
           /\ az' = [az EXCEPT ![1] = AfterReset(@)] /\ Log(H("reset", 1, [x |-> 0], [ok |-> TRUE]))
           /\ round' = round + 1 /\ stage' = "add" /\ UNCHANGED snap

\* C13: after the last round, query both panel queries as well (derived facts must not leak either)
Final == /\ stage = "final" /\ ~EdgeQuery(az[1])
         /\ LET a == az[1]
                a1 == IF a.dirty /\ a.wr = <<>> THEN a ELSE AfterQuery(a)
            IN /\ hist' = hist \o [q \in 1..Len(Queries) |-> H("query", 1, Queries[q], QueryExp(a, q))]
               /\ az' = [az EXCEPT ![1] = a1]
         /\ stage' = "done" /\ UNCHANGED <<snap, round>>

\* C18: save (refused iff evaluated), load into a fresh authorizer of ANY token, authorize and query there
DoSave == /\ stage = "save"
          /\ IF az[1].dirty THEN /\ Log(H("save", 1, [x |-> 0], [ok |-> FALSE])) /\ stage' = "done" /\ UNCHANGED <<az, snap>>
             ELSE /\ snap' = SnapOf(az[1]) /\ Log(H("save", 1, [x |-> 0], [ok |-> TRUE])) /\ stage' = "load" /\ UNCHANGED az
          /\ UNCHANGED round
DoLoad == /\ stage = "load" /\ Shape = "snapshot"
          /\ \E t \in 1..Len(Toks) :
                LET b == AfterLoad(New(t), snap)
                    s == ProcOn(b)
                    b2 == AfterAuthorize(b)
                IN /\ az' = [az EXCEPT ![2] = b2]
                   /\ hist' = hist \o << H("new", 2, [t |-> t], [ok |-> TRUE]), H("load", 2, [x |-> 0], [ok |-> TRUE]),
                                         H("authorize", 2, [x |-> 0], [v |-> {VerdictOf(s)}]) >>
                                   \o [q \in 1..Len(Queries) |-> H("query", 2, Queries[q], QueryExp(b2, q))]
                                   \o << H("authorize", 1, [x |-> 0], [v |-> {VerdictOf(ProcOn(az[1]))}]) >>
          /\ stage' = "done" /\ UNCHANGED <<snap, round>>

\* C18 applied to an authorizer whose content arrived through LoadPolicies: the loaded (unevaluated) authorizer is saved again,
\* its snapshot goes into a third fresh authorizer; all three must agree for the same token
DoReLoad == /\ stage = "load" /\ Shape = "resnapshot"
            /\ \E t \in 1..Len(Toks) :
                LET b  == AfterLoad(New(t), snap)
                    b3 == AfterLoad(New(t), SnapOf(b))
                    e3 == AfterAuthorize(b3)
                IN /\ az' = [az EXCEPT ![2] = AfterAuthorize(b)]
                   /\ hist' = hist \o << H("new", 2, [t |-> t], [ok |-> TRUE]), H("load", 2, [x |-> 0], [ok |-> TRUE]),
                                         H("save", 2, [x |-> 1], [ok |-> TRUE]),
                                         H("new", 3, [t |-> t], [ok |-> TRUE]), H("load", 3, [x |-> 1], [ok |-> TRUE]),
                                         H("authorize", 3, [x |-> 0], [v |-> {VerdictOf(ProcOn(b3))}]) >>
                                   \o [q \in 1..Len(Queries) |-> H("query", 3, Queries[q], QueryExp(e3, q))]
                                   \o << H("authorize", 2, [x |-> 0], [v |-> {VerdictOf(ProcOn(b))}]) >>
                                   \o [q \in 1..Len(Queries) |-> H("query", 2, Queries[q], QueryExp(AfterAuthorize(b), q))]
                                   \o << H("authorize", 1, [x |-> 0], [v |-> {VerdictOf(ProcOn(az[1]))}]) >>
                   /\ Assert(SnapOf(b) = snap, "a snapshot of the restored authorizer differs from the snapshot it was restored from")
            /\ stage' = "done" /\ UNCHANGED <<snap, round>>

Next == DoReLoad \/ DoAdd \/ DoLoadRound \/ Eval \/ SkipEval \/ SkipEvalReset \/ DoReset \/ Final \/ DoSave \/ DoLoad
Spec == Init /\ [][Next]_vars

-----------------------------------------------------------------------------
\* C13: Reset restores exactly the state of a newly created authorizer
ResetClean == stage = "add" => az[1] = NewL(az[1].tok, hist[1].arg.lim)
\* C18: the restored authorizer decides like the original would for the same token (checked on equal tokens)
SnapshotEquiv == stage = "done" /\ Shape = "snapshot" /\ snap.ok /\ az[2].tok # 0 /\ az[2].tok = az[1].tok =>
                    hist[Len(hist)].exp = hist[Len(hist) - Len(Queries) - 1].exp
ResnapEquiv == stage = "done" /\ Shape = "resnapshot" /\ snap.ok =>
                  LET n == Len(hist)  nq == Len(Queries) IN
                  /\ \A j \in 0..nq : hist[n - 1 - nq + j].exp = hist[n - 2 - 2 * nq + j].exp      \* slot 2 and slot 3 agree (verdict, queries)
                  /\ az[2].tok = az[1].tok => hist[n].exp = hist[n - 1 - nq].exp                \* and agree with the original
\* a successful evaluation (authorize that ran, or query) before the save makes it refused
Evaluated(e) == (e.op = "authorize" /\ e.exp.v # {"other"}) \/ (e.op = "query" /\ "rows" \in DOMAIN e.exp)
SaveRefusedIffEvaluated == \A i \in 1..Len(hist) : hist[i].op = "save" =>
                    (hist[i].exp.ok = ~(\E j \in 1..(i - 1) : Evaluated(hist[j]) /\ ~(\E k \in (j + 1)..(i - 1) : hist[k].op = "reset")))
Export == stage = "done" => PrintT(<<"CASE", ToJson([hist |-> hist, toks |-> Toks])>>)
=============================================================================
