------------------------------- MODULE SymHeap -------------------------------
(***************************************************************************)
(* Go slice semantics behind biscuit-go's symbol tables (datalog/symbol.go, *)
(* builder.go, biscuit.go): a SymbolTable is a slice HEADER [array, len]    *)
(* over a backing array whose capacity may exceed len; `append` writes in   *)
(* place when there is spare capacity and otherwise moves to a new array of *)
(* runtime-chosen capacity (modelled nondeterministically, so the result    *)
(* does not depend on today's growth policy).                               *)
(*                                                                         *)
(* Objects: tokens, block builders, built blocks.  Every object carries the *)
(* ghost field `want` = the symbols its own caller put in; Obs reads the    *)
(* cells through the object's header exactly as String()/Authorize do.      *)
(* Immutable: for every live object Obs = want, after every operation (C08).*)
(* DeepClone = FALSE is SymbolTable.Clone of the pinned tree (header copy). *)
(* The list of signed blocks of a token (container.Blocks) is a slice too: *)
(* CopyBlockList = TRUE is Append's append([]*SignedBlock{}, parent...)    *)
(* followed by append; FALSE appends to the parent's list in place, which  *)
(* lets two children of one parent overwrite each other's last block.      *)
(* A builder is NOT consumed by Build (C08 quantifies over all             *)
(* interleavings of add-to-builder and build-block): BuildKeepsBuilder.    *)
(***************************************************************************)
EXTENDS Integers, Sequences, FiniteSets, TLC, Json

CONSTANTS DeepClone, CopyBlockList, NSyms, MaxToks, MaxBBs, MaxAdds, MaxOps,
          BuildKeepsBuilder,   \* TRUE: Build leaves the builder as it was (it can be filled further and built again: each built
                               \* block holds what its caller had put in so far).  FALSE = builder.go of the pinned tree: Build
                               \* replaces the builder's table by the split-off part while `start` and the recorded indexes stay.
          Lite,    \* TRUE: only builder / append operations (used by the negative block-list model to reach depth)
          RootBuilders,   \* TRUE: authority builders (NewBuilder / BuildRoot) take part
          Spares   \* spare capacities the runtime may leave when an array grows ({0, 1} in model checking)

VARIABLES arrays,   \* sequence of backing arrays (sequences of symbols, 0 = unused cell)
          toks,     \* tokens:   [sl, refs, want, owns]
          bbs,      \* builders: [sl, start, refs, want, live]
          blks,     \* built blocks: [own, start, refs, want, wantOwn, used]
          hist      \* operations performed (exported for replay)
vars == <<arrays, toks, bbs, blks, hist>>

Slice(a, n) == [a |-> a, n |-> n]
Cell(A, sl, i) == A[sl.a][i]
Cap(A, sl) == Len(A[sl.a])
Find(A, sl, s) == IF \E i \in 1..sl.n : Cell(A, sl, i) = s THEN CHOOSE i \in 1..sl.n : Cell(A, sl, i) = s ELSE 0

\* SymbolTable.Insert: returns [A, sl, idx] for every capacity the runtime might choose on growth
InsertSet(A, sl, s) ==
    IF Find(A, sl, s) # 0 THEN {[A |-> A, sl |-> sl, idx |-> Find(A, sl, s)]}
    ELSE IF sl.n < Cap(A, sl)
         THEN {[A |-> [A EXCEPT ![sl.a][sl.n + 1] = s], sl |-> Slice(sl.a, sl.n + 1), idx |-> sl.n + 1]}      \* in place: shared!
         ELSE {[A |-> Append(A, [i \in 1..(sl.n + 1 + spare) |-> IF i <= sl.n THEN Cell(A, sl, i) ELSE IF i = sl.n + 1 THEN s ELSE 0]),
                sl |-> Slice(Len(A) + 1, sl.n + 1), idx |-> sl.n + 1] : spare \in Spares}

\* SymbolTable.Clone
CloneSet(A, sl) ==
    IF DeepClone
    THEN {[A |-> Append(A, [i \in 1..(sl.n + spare) |-> IF i <= sl.n THEN Cell(A, sl, i) ELSE 0]), sl |-> Slice(Len(A) + 1, sl.n)] : spare \in Spares}
    ELSE {[A |-> A, sl |-> sl]}

\* Extend(other): Insert every symbol of a sequence
RECURSIVE ExtendSet(_, _, _)
ExtendSet(A, sl, ss) ==
    IF ss = <<>> THEN {[A |-> A, sl |-> sl]}
    ELSE UNION {ExtendSet(r.A, r.sl, Tail(ss)) : r \in InsertSet(A, sl, Head(ss))}

\* an index beyond the table reads as 0 ("<invalid symbol>")
Obs(A, o) == [i \in 1..Len(o.refs) |-> IF o.refs[i] <= o.sl.n THEN Cell(A, o.sl, o.refs[i]) ELSE 0]
Flat(ss) == LET RECURSIVE f(_) f(x) == IF x = <<>> THEN <<>> ELSE Head(x) \o f(Tail(x)) IN f(ss)

Init == /\ arrays = << <<>> >>                      \* array 1: the (empty) default table
        /\ toks = << [sl |-> Slice(1, 0), refs |-> <<>>, want |-> <<>>, owns |-> << <<>> >>, sealed |-> FALSE, bl |-> Slice(1, 0)] >>   \* a root token without own symbols
        /\ bbs = <<>> /\ blks = <<>> /\ hist = <<>>

Log(e) == hist' = Append(hist, e)

CreateBlock(t) ==
    /\ Len(bbs) < MaxBBs
    /\ \E c \in CloneSet(arrays, toks[t].sl) :
          /\ arrays' = c.A
          /\ bbs' = Append(bbs, [sl |-> c.sl, start |-> c.sl.n, refs |-> <<>>, want |-> <<>>, live |-> TRUE, tok |-> t, root |-> FALSE])
    /\ Log([op |-> "create", t |-> t]) /\ UNCHANGED <<toks, blks>>

\* biscuit.NewBuilder: an AUTHORITY builder over a copy of the default table (array 1, abstracted as empty)
NewBuilder ==
    /\ Len(bbs) < MaxBBs
    /\ \E c \in CloneSet(arrays, Slice(1, 0)) :
          /\ arrays' = c.A
          /\ bbs' = Append(bbs, [sl |-> c.sl, start |-> 0, refs |-> <<>>, want |-> <<>>, live |-> TRUE, tok |-> 0, root |-> TRUE])
    /\ Log([op |-> "newbuilder"]) /\ UNCHANGED <<toks, blks>>

AddFact(b, s) ==
    /\ bbs[b].live /\ Len(bbs[b].refs) < MaxAdds
    /\ \E r \in InsertSet(arrays, bbs[b].sl, s) :
          /\ arrays' = r.A
          /\ bbs' = [bbs EXCEPT ![b].sl = r.sl, ![b].refs = Append(@, r.idx), ![b].want = Append(@, s)]
    /\ Log([op |-> "add", b |-> b, s |-> s]) /\ UNCHANGED <<toks, blks>>

BuildBlock(b) ==
    /\ bbs[b].live /\ ~bbs[b].root
    /\ bbs[b].sl.n >= bbs[b].start            \* otherwise SplitOff panics (NoSplitPanic)
    /\ LET x == bbs[b]
           own == [i \in 1..(x.sl.n - x.start) |-> Cell(arrays, x.sl, x.start + i)]      \* SplitOff copies the cells NOW
           wantOwn == LET RECURSIVE nw(_, _) nw(ws, seen) == IF ws = <<>> THEN <<>>
                                ELSE IF Head(ws) \in seen THEN nw(Tail(ws), seen) ELSE <<Head(ws)>> \o nw(Tail(ws), seen \cup {Head(ws)})
                      IN nw(x.want, {Cell(arrays, x.sl, i) : i \in 1..x.start})
       IN /\ blks' = Append(blks, [own |-> own, start |-> x.start, refs |-> x.refs, want |-> x.want, wantOwn |-> wantOwn, tok |-> x.tok])
          /\ IF BuildKeepsBuilder THEN UNCHANGED <<bbs, arrays>>
             ELSE /\ arrays' = Append(arrays, own)
                  /\ bbs' = [bbs EXCEPT ![b].sl = Slice(Len(arrays) + 1, Len(own))]
    /\ Log([op |-> "build", b |-> b]) /\ UNCHANGED toks

\* Builder.Build: a new root token holding what the caller put in so far; the builder is not consumed either.  The pinned tree
\* hands the builder's own table (truncated to the default part) and fact list to the token (BuildKeepsBuilder = FALSE models
\* the truncation; the shared fact list is observed on the real code only).
BuildRoot(b) ==
    /\ bbs[b].root /\ Len(toks) < MaxToks
    /\ LET x == bbs[b]
           own == [i \in 1..x.sl.n |-> Cell(arrays, x.sl, i)]
       IN \E c \in CloneSet(arrays, x.sl) :
             /\ toks' = Append(toks, [sl |-> c.sl, refs |-> x.refs, want |-> x.want, owns |-> <<own>>, sealed |-> FALSE, bl |-> Slice(1, 0)])
             /\ IF BuildKeepsBuilder THEN arrays' = c.A /\ UNCHANGED bbs
                ELSE arrays' = Append(c.A, <<>>) /\ bbs' = [bbs EXCEPT ![b].sl = Slice(Len(c.A) + 1, 0)]
    /\ Log([op |-> "buildroot", b |-> b]) /\ UNCHANGED blks

\* the child's list of signed blocks: a fresh copy plus the new block, or an in-place append to the parent's list
BlockListSet(A, bl, k) ==
    IF CopyBlockList \/ bl.n >= Cap(A, bl)
    THEN {[A |-> Append(A, [i \in 1..(bl.n + 1 + spare) |-> IF i <= bl.n THEN Cell(A, bl, i) ELSE IF i = bl.n + 1 THEN k ELSE 0]),
           bl |-> Slice(Len(A) + 1, bl.n + 1)] : spare \in Spares}
    ELSE {[A |-> [A EXCEPT ![bl.a][bl.n + 1] = k], bl |-> Slice(bl.a, bl.n + 1)]}                  \* shared with every sibling!
AppendBlk(k) ==
    /\ Len(toks) < MaxToks /\ ~toks[blks[k].tok].sealed
    /\ LET t == blks[k].tok IN
       \E c \in CloneSet(arrays, toks[t].sl) : \E e \in ExtendSet(c.A, c.sl, blks[k].own) : \E b \in BlockListSet(e.A, toks[t].bl, k) :
          /\ arrays' = b.A
          /\ toks' = Append(toks, [sl |-> e.sl, refs |-> toks[t].refs \o blks[k].refs, want |-> toks[t].want \o blks[k].want,
                                   owns |-> Append(toks[t].owns, blks[k].own), sealed |-> FALSE, bl |-> b.bl])
    /\ Log([op |-> "append", k |-> k]) /\ UNCHANGED <<bbs, blks>>

\* a block built for ANOTHER token that declares a symbol the target's table already holds is refused by Append: nothing changes.
\* (Other cross appends -- disjoint tables -- are outside the model: the block's indexes are relative to the token it was built for.)
CrossAppendRefused(k, t) ==
    /\ t # blks[k].tok
    /\ \E i \in 1..Len(blks[k].own), j \in 1..toks[t].sl.n : blks[k].own[i] = Cell(arrays, toks[t].sl, j)
    /\ Log([op |-> "xappend", k |-> k, t |-> t]) /\ UNCHANGED <<arrays, toks, bbs, blks>>

GetBlockID(t, s) ==
    /\ \E c \in CloneSet(arrays, toks[t].sl) : \E r \in InsertSet(c.A, c.sl, s) : arrays' = r.A
    /\ Log([op |-> "getblockid", t |-> t, s |-> s]) /\ UNCHANGED <<toks, bbs, blks>>

Seal(t) ==
    /\ Len(toks) < MaxToks /\ ~toks[t].sealed
    /\ \E c \in CloneSet(arrays, toks[t].sl) :
          LET bl == toks[t].bl
              A2 == Append(c.A, [i \in 1..bl.n |-> Cell(arrays, bl, i)])        \* Seal always copies the block list
          IN arrays' = A2 /\ toks' = Append(toks, [toks[t] EXCEPT !.sl = c.sl, !.sealed = TRUE, !.bl = Slice(Len(c.A) + 1, bl.n)])
    /\ Log([op |-> "seal", t |-> t]) /\ UNCHANGED <<bbs, blks>>

\* Unmarshal(Serialize(t)): a fresh table built from what the wire carries (each block's declared symbols)
Reload(t) ==
    /\ Len(toks) < MaxToks
    /\ LET flat == Flat(toks[t].owns) IN
       \E spare \in Spares :
          LET A1 == Append(arrays, [i \in 1..(Len(flat) + spare) |-> IF i <= Len(flat) THEN flat[i] ELSE 0])
              bl == toks[t].bl
              \* the decoded list of signed blocks: what the parent's list reads NOW, in a fresh array of runtime-chosen capacity
              A2 == Append(A1, [i \in 1..(bl.n + spare) |-> IF i <= bl.n THEN Cell(arrays, bl, i) ELSE 0])
          IN /\ arrays' = A2
             /\ toks' = Append(toks, [toks[t] EXCEPT !.sl = Slice(Len(arrays) + 1, Len(flat)), !.bl = Slice(Len(arrays) + 2, bl.n)])
    /\ Log([op |-> "reload", t |-> t]) /\ UNCHANGED <<bbs, blks>>

Step == \/ \E t \in 1..Len(toks) : CreateBlock(t) \/ (~Lite /\ (Seal(t) \/ Reload(t) \/ \E s \in 1..NSyms : GetBlockID(t, s)))
        \/ \E b \in 1..Len(bbs) : BuildBlock(b) \/ BuildRoot(b) \/ \E s \in 1..NSyms : AddFact(b, s)
        \/ (RootBuilders /\ NewBuilder)
        \/ \E k \in 1..Len(blks) : AppendBlk(k) \/ (~Lite /\ \E t \in 1..Len(toks) : CrossAppendRefused(k, t))
Next == /\ Len(hist) < MaxOps
        /\ Step
Spec == Init /\ [][Next]_vars

-----------------------------------------------------------------------------
\* C08: every token, and every built block, still contains exactly what its own caller put in
TokensIntact == \A t \in 1..Len(toks) : Obs(arrays, toks[t]) = toks[t].want
\* what a token serializes: the declared symbols of the blocks its block list points to (authority first)
WireOf(A, t) == <<t.owns[1]>> \o [i \in 1..t.bl.n |-> blks[Cell(A, t.bl, i)].own]
WireIntact == \A t \in 1..Len(toks) : WireOf(arrays, toks[t]) = toks[t].owns
BlocksIntact == \A k \in 1..Len(blks) : blks[k].own = blks[k].wantOwn
Immutable == TokensIntact /\ BlocksIntact /\ WireIntact
\* building never fails: the builder's table still starts with the parent's symbols
NoSplitPanic == \A b \in 1..Len(bbs) : bbs[b].sl.n >= bbs[b].start
\* the wire content of a token never changes once it exists
WireStable == [][\A t \in 1..Len(toks) : toks'[t].owns = toks[t].owns]_vars
View == <<arrays, toks, bbs, blks>>
Export == PrintT(<<"CASE", ToJson([hist |-> hist, want |-> [t \in 1..Len(toks) |-> toks[t].want],
                                      bwant |-> [k \in 1..Len(blks) |-> blks[k].wantOwn]])>>)
Terminal == Len(hist) = MaxOps
ExportTerminal == Terminal => Export
=============================================================================
