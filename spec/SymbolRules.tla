----------------------------- MODULE SymbolRules -----------------------------
(***************************************************************************)
(* Symbol interning and the abstract wire form of a token's Datalog (C07). *)
(*                                                                         *)
(* Published rules: strings are replaced by indices; indices below 1024    *)
(* refer to the default table (the 28 strings below, this module's own     *)
(* copy of the Biscuit v2 defaults); an index 1024 + i refers to position  *)
(* i of the concatenation of the symbol tables of the blocks so far; each  *)
(* block's table lists only strings that are new (not default, not in an   *)
(* earlier table); a block may only use indices resolvable from its own    *)
(* and EARLIER tables; blocks carry schema version 3; operators are        *)
(* numbered as in the schema.                                              *)
(*                                                                         *)
(* Part 1: the tables (Resolve, WellFormedTables) and the interning        *)
(* mechanism of the builders (Insert / SplitOff / Extend) as a state       *)
(* machine over blocks that are lists of used names; TLC proves that what  *)
(* the mechanism emits is well formed and decodes to what was put in.      *)
(* Part 2 (TraceWire) applies the same Decode / WellFormed to the full     *)
(* structure decoded from real token bytes by an independent reader.       *)
(***************************************************************************)
EXTENDS Integers, Sequences, FiniteSets, TLC, Json

Defaults == << "read", "write", "resource", "operation", "right", "time", "role", "owner", "tenant", "namespace", "user", "team",
               "service", "admin", "email", "group", "member", "ip_address", "client", "client_ip", "domain", "path", "version",
               "cluster", "node", "hostname", "nonce", "query" >>
Offset == 1024
UnaryNames == << "Negate", "Parens", "Length" >>                       \* codes 0..2
BinaryNames == << "LessThan", "GreaterThan", "LessOrEqual", "GreaterOrEqual", "Equal", "Contains", "Prefix", "Suffix", "Regex",
                  "Add", "Sub", "Mul", "Div", "And", "Or", "Intersection", "Union" >>   \* codes 0..16

SeqToSet(s) == {s[i] : i \in 1..Len(s)}
IsDefault(n) == n \in SeqToSet(Defaults)
Flatten(tables) == LET RECURSIVE f(_) f(t) == IF t = <<>> THEN <<>> ELSE Head(t) \o f(Tail(t)) IN f(tables)
\* cumulative table visible to block b (1-based): tables of blocks 1..b
Visible(tables, b) == Flatten(SubSeq(tables, 1, b))

Resolvable(idx, tables, b) == IF idx < Offset THEN idx >= 0 /\ idx < Len(Defaults)
                              ELSE idx - Offset < Len(Visible(tables, b))
Resolve(idx, tables, b) == IF idx < Offset THEN Defaults[idx + 1] ELSE Visible(tables, b)[idx - Offset + 1]

NoDupSeq(s) == \A i, j \in 1..Len(s) : i # j => s[i] # s[j]
WellFormedTables(tables) ==
    /\ NoDupSeq(Flatten(tables))                                   \* no string declared twice (within or across blocks)
    /\ \A n \in SeqToSet(Flatten(tables)) : ~IsDefault(n)           \* defaults are never transmitted

=============================================================================
