------------------------------- MODULE Symbols -------------------------------
(* The interning MECHANISM of the builders (datalog/symbol.go Insert / SplitOff / Extend, builder.go) as a state   *)
(* machine; the published rules it must satisfy are in SymbolRules.  A block is the list of names its Datalog     *)
(* mentions, in order of use.                                                                                      *)
EXTENDS SymbolRules
CONSTANTS Names, MaxBlocks, MaxUses

Index(n, table) == IF IsDefault(n) THEN (CHOOSE i \in 1..Len(Defaults) : Defaults[i] = n) - 1
                   ELSE Offset + (CHOOSE i \in 1..Len(table) : table[i] = n) - 1
\* SymbolTable.Insert on the builder's working table (token table so far + own new symbols)
Insert(table, n) == IF IsDefault(n) \/ n \in SeqToSet(table) THEN table ELSE Append(table, n)

VARIABLES content,   \* blocks as the caller wrote them: sequences of names
          tables,    \* per-block symbol tables on the wire
          wire,      \* per-block sequences of indices on the wire
          work,      \* working table of the block under construction
          uses       \* names used so far in the block under construction
vars == <<content, tables, wire, work, uses>>

Init == content = <<>> /\ tables = <<>> /\ wire = <<>> /\ work = <<>> /\ uses = <<>>
\* AddFact / AddRule / AddCheck: intern one more name
Use(n) == /\ Len(uses) < MaxUses /\ Len(content) < MaxBlocks
          /\ work' = Insert(work, n) /\ uses' = Append(uses, n)
          /\ UNCHANGED <<content, tables, wire>>
\* Build + Append: SplitOff the new symbols, emit indices, Extend the token table
Emit == /\ Len(content) < MaxBlocks
        /\ LET start == Len(Flatten(tables)) IN
           /\ tables' = Append(tables, SubSeq(work, start + 1, Len(work)))
           /\ wire' = Append(wire, [i \in 1..Len(uses) |-> Index(uses[i], work)])
        /\ content' = Append(content, uses)
        /\ uses' = <<>> /\ UNCHANGED work
Next == Emit \/ \E n \in Names : Use(n)
Spec == Init /\ [][Next]_vars

EncodedWellFormed == /\ WellFormedTables(tables)
                     /\ \A b \in 1..Len(wire) : \A i \in 1..Len(wire[b]) : Resolvable(wire[b][i], tables, b)
DecodeIsContent == \A b \in 1..Len(wire) : [i \in 1..Len(wire[b]) |-> Resolve(wire[b][i], tables, b)] = content[b]
\* a block never needs a LATER table
NoForwardReference == \A b \in 1..Len(wire) : \A i \in 1..Len(wire[b]) : wire[b][i] >= Offset => wire[b][i] - Offset < Len(Visible(tables, b))
=============================================================================
