------------------------------- MODULE Threads -------------------------------
(***************************************************************************)
(* Several goroutines use ONE token at the same time (C19).  The library    *)
(* has no synchronisation, so two accesses of different goroutines to the   *)
(* same memory cell race as soon as one of them is a write.  Cells:         *)
(*   "sym.data"   the token's symbol slots [0, len)                         *)
(*   "sym.spare"  the first spare slot of its backing array (if any)        *)
(*   "bufK.data"  the stored bytes of signed block K                        *)
(*   "bufK.spare" the spare capacity behind them (if any)                   *)
(* Operations are sequences of atomic reads / writes of these cells; which  *)
(* cells an operation writes depends on the mechanisms the anchors name:    *)
(*   FreshVerifyBuffer = FALSE : signature verification builds its payload  *)
(*        with append(block.Block[:], ...) -> writes bufK.spare when the    *)
(*        buffer has spare capacity (pinned tree)                           *)
(*   DeepClone = FALSE : CreateBlock / GetBlockID / Append insert new       *)
(*        symbols through a header copy -> write sym.spare (pinned tree)    *)
(***************************************************************************)
EXTENDS Integers, Sequences, FiniteSets, TLC, Json

CONSTANTS FreshVerifyBuffer, DeepClone, NG, NBlocks

Ops == {"verify", "authorize", "string", "serialize", "getid", "build", "append", "seal"}

VARIABLES symSpare,   \* the shared symbol table has spare capacity
          bufSpare,   \* bufSpare[k]: stored block k has spare capacity (runtime / protobuf decided)
          op,         \* op[g]: operation of goroutine g
          todo,       \* todo[g]: remaining accesses of goroutine g
          log         \* accesses performed: <<g, cell, kind>>
vars == <<symSpare, bufSpare, op, todo, log>>

R(c) == <<c, "r">>
W(c) == <<c, "w">>
Buf(k, part) == "buf" \o ToString(k) \o "." \o part

VerifyAcc(sp) == LET RECURSIVE f(_) f(k) == IF k > NBlocks THEN <<>>
                        ELSE <<R(Buf(k, "data"))>> \o (IF ~FreshVerifyBuffer /\ sp[k] THEN <<W(Buf(k, "spare"))>> ELSE <<>>) \o f(k + 1)
                 IN f(1)
ReadAll == <<R("sym.data")>> \o [k \in 1..NBlocks |-> R(Buf(k, "data"))]
InsertAcc(ss) == <<R("sym.data")>> \o (IF ~DeepClone /\ ss THEN <<W("sym.spare")>> ELSE <<>>)

Accesses(o, ss, sp) ==
    CASE o = "verify" -> VerifyAcc(sp)
      [] o = "authorize" -> VerifyAcc(sp) \o <<R("sym.data")>>
      [] o = "string" -> ReadAll
      [] o = "serialize" -> [k \in 1..NBlocks |-> R(Buf(k, "data"))]
      [] o = "getid" -> InsertAcc(ss)
      [] o = "build" -> InsertAcc(ss)
      [] o = "append" -> InsertAcc(ss) \o [k \in 1..NBlocks |-> R(Buf(k, "data"))]
      [] o = "seal" -> <<R("sym.data"), R(Buf(NBlocks, "data"))>> \o (IF ~FreshVerifyBuffer /\ sp[NBlocks] THEN <<W(Buf(NBlocks, "spare"))>> ELSE <<>>)

Init == /\ symSpare \in BOOLEAN /\ bufSpare \in [1..NBlocks -> BOOLEAN]
        /\ op \in [1..NG -> Ops]
        /\ todo = [g \in 1..NG |-> Accesses(op[g], symSpare, bufSpare)]
        /\ log = {}

Step(g) == /\ todo[g] # <<>>
           /\ log' = log \cup {<<g, Head(todo[g])[1], Head(todo[g])[2]>>}
           /\ todo' = [todo EXCEPT ![g] = Tail(@)]
           /\ UNCHANGED <<symSpare, bufSpare, op>>
Next == \E g \in 1..NG : Step(g)
Spec == Init /\ [][Next]_vars

\* C19: no two goroutines touch the same cell when one of them writes
NoRace == \A a, b \in log : (a[1] # b[1] /\ a[2] = b[2]) => (a[3] = "r" /\ b[3] = "r")
\* the token itself is never written by any of the listed operations
TokenReadOnly == \A a \in log : a[3] = "w" => a[2] \notin ({"sym.data"} \cup {Buf(k, "data") : k \in 1..NBlocks})
Finished == \A g \in 1..NG : todo[g] = <<>>
Export == Finished => PrintT(<<"CASE", ToJson([ops |-> op])>>)
=============================================================================
