----------------------------- MODULE TraceAuthz -----------------------------
(* Trace validation of real authorizations (L3 of C02 / C03 / C04 / C12):    *)
(* each event carries the abstract token, the authorizer content, the        *)
(* outcome class observed on the real library and the authority-level facts  *)
(* it left behind.  The specification computes RefVerdict and the closure.    *)
EXTENDS Authz, TLC, Json, IOUtils

Trace == ndJsonDeserialize(IOEnv.TRACE)
VARIABLES l, bad
tvars == <<l, bad>>

ClassOf(v) == CASE v = "ok" -> "ok" [] v = "denied" -> "denied" [] v = "nomatch" -> "nomatch" [] OTHER -> "failed"
\* queries whose outcome depends on the enumeration order of matches are outside the fragment
AllQueries(e) == LET cs(b) == UNION {SeqSet(b.c[i]) : i \in 1..Len(b.c)} IN
                 cs(e.az) \cup cs(e.tok.auth) \cup UNION {cs(e.tok.blocks[i]) : i \in 1..Len(e.tok.blocks)}
                 \cup UNION {SeqSet(e.az.p[i].q) : i \in 1..Len(e.az.p)}
EventOK(e) ==
    LET exp == {ClassOf(v) : v \in RefVerdict(e.tok, e.az)} IN
    /\ e.v \in exp
    /\ (~EvalFails(e.tok, e.az) => SeqSet(e.world) = Closure(e.tok, e.az) /\ Len(e.world) = Cardinality(SeqSet(e.world)))
    \* C02 on the same event: dropping the last block cannot turn acceptance into refusal
    /\ (e.v = "ok" /\ Len(e.tok.blocks) > 0 =>
            "ok" \in RefVerdict([e.tok EXCEPT !.blocks = SubSeq(@, 1, Len(@) - 1)], e.az))

TInit == l = 1 /\ bad = <<>>
TNext == /\ l <= Len(Trace) /\ l' = l + 1
         /\ bad' = IF EventOK(Trace[l]) THEN bad ELSE Append(bad, l)
TSpec == TInit /\ [][TNext]_tvars
Done == l = Len(Trace) + 1
Report == Done => PrintT(<<"BAD", ToJson([bad |-> bad, n |-> Len(Trace)])>>)
=============================================================================
