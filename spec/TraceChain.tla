----------------------------- MODULE TraceChain -----------------------------
(* Trace validation for C01 / C09: tokens observed on the wire (honest ones  *)
(* mutated by the catalogue of the property: bit flips, field substitution   *)
(* between blocks and tokens, reordering, insertion, removal, truncation,    *)
(* re-keying with an attacker key, proof replacement, seal/unseal swaps,     *)
(* wrong-size keys / signatures / secrets) are ABSTRACTED by the harness     *)
(* into Chain terms -- which known key validates which signature over which  *)
(* payload is established with crypto/ed25519 by the harness, never by the   *)
(* library -- and the specification decides acceptance with Chain!Verify.    *)
EXTENDS Chain, IOUtils

Trace == ndJsonDeserialize(IOEnv.TRACE)
VARIABLES l, bad
tvars == <<l, bad>>

\* e.tok: [bl, pf, rid]; e.malformed: a size / algorithm / decoding gate must reject it whatever the signatures say
Expected(e) == ~e.malformed /\ Verify(e.tok, Root)
EventOK(e) == e.accept = Expected(e)

TInit == l = 1 /\ bad = <<>>
TNext == /\ l <= Len(Trace) /\ l' = l + 1
         /\ bad' = IF EventOK(Trace[l]) THEN bad ELSE Append(bad, l)
         /\ UNCHANGED <<tokens, hops, nk, phase, given, atk>>
TSpec == TInit /\ Init /\ [][TNext]_<<l, bad, tokens, hops, nk, phase, given, atk>>
Done == l = Len(Trace) + 1
Report == Done => PrintT(<<"BAD", ToJson([bad |-> bad, n |-> Len(Trace)])>>)
=============================================================================
