---------------------------- MODULE TraceDatalog ----------------------------
(* Trace validation of the real Datalog engine (C05, C11, C12):             *)
(*   kind "join": World.QueryRule(body) over a fact LIST -> rows            *)
(*   kind "run" : World.Run with limits -> outcome class, final fact set,   *)
(*                and the result rows of follow-up queries                  *)
(* Expected values are computed here from Datalog.tla; disagreeing event    *)
(* positions are accumulated in `bad`.                                      *)
EXTENDS Datalog, TLC, Json, IOUtils

Trace == ndJsonDeserialize(IOEnv.TRACE)

VARIABLES l, bad
tvars == <<l, bad>>

JoinOK(e) == LET M == Matches(e.body, SeqSet(e.facts))
             IN /\ SeqSet(e.obs.rows) = {[i \in 1..e.k |-> s[0 - i]] : s \in M}
                /\ e.obs.n = Cardinality(M)        \* each match exactly once

QueryOK(q, F, rows) == SeqSet(rows) = Conseq(q, F)

RunOK(e) == LET F0 == SeqSet(e.facts)
                obs == [res |-> e.obs.res, facts |-> SeqSet(e.obs.facts)]
            IN /\ RunAllowed(F0, e.rules, e.mf, e.mi, obs)
               /\ Len(e.obs.facts) = Cardinality(SeqSet(e.obs.facts))     \* structural de-duplication
               /\ (e.obs.res = "ok" =>
                     \A i \in 1..Len(e.queries) :
                        Uniform(e.queries[i], obs.facts) => QueryOK(e.queries[i], obs.facts, e.obs.qres[i]))

EventOK(e) == CASE e.kind = "join" -> JoinOK(e)
                [] e.kind = "run" -> RunOK(e)
                [] OTHER -> FALSE

TInit == l = 1 /\ bad = <<>>
TNext == /\ l <= Len(Trace)
         /\ l' = l + 1
         /\ bad' = IF EventOK(Trace[l]) THEN bad ELSE Append(bad, l)
TSpec == TInit /\ [][TNext]_tvars

Done == l = Len(Trace) + 1
Report == Done => PrintT(<<"BAD", ToJson([bad |-> bad, n |-> Len(Trace)])>>)
=============================================================================
