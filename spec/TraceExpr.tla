------------------------------ MODULE TraceExpr ------------------------------
(* Trace validation of recorded expression evaluations (C06): every event   *)
(* {ops, env, res} recorded from Expression.Evaluate must agree with     *)
(* Expr!Eval.  Events are independent; positions that disagree are          *)
(* accumulated in `bad` and printed, so one run classifies every event.     *)
EXTENDS Expr, Json, IOUtils, TLC

Trace == ndJsonDeserialize(IOEnv.TRACE)

VARIABLES l, bad
vars == <<l, bad>>

Init == l = 1 /\ bad = <<>>
Next == /\ l <= Len(Trace)
        /\ l' = l + 1
        /\ LET e == Trace[l] IN
           bad' = IF Agrees(Eval(e.ops, e.env), e.res) THEN bad ELSE Append(bad, l)
Spec == Init /\ [][Next]_vars

Done == l = Len(Trace) + 1
Report == Done => PrintT(<<"BAD", ToJson([bad |-> bad, n |-> Len(Trace)])>>)
Accepted == TLCGet("stats").diameter = Len(Trace) + 1 \/ Len(Trace) = 0
=============================================================================
