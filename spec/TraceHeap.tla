------------------------------ MODULE TraceHeap ------------------------------
(* Histories recorded from / generated for the real library (one JSON line   *)
(* per history: [id, hist]) are stepped through the actions of SymHeap: each *)
(* operation must be an ENABLED action of the specification (otherwise the   *)
(* history is rejected), and at its end the specification's expectation      *)
(* (`want` of every token, `wantOwn` of every built block) is printed for    *)
(* comparison with what the real objects contain.  Growth capacities are     *)
(* irrelevant to `want` (theorem Immutable of SymHeap), so one is chosen.    *)
EXTENDS SymHeap, IOUtils

Trace == ndJsonDeserialize(IOEnv.TRACE)

VARIABLES h, l     \* current history, position inside it
tvars == <<arrays, toks, bbs, blks, hist, h, l>>

Reset == /\ arrays' = << <<>> >>
         /\ toks' = << [sl |-> Slice(1, 0), refs |-> <<>>, want |-> <<>>, owns |-> << <<>> >>, sealed |-> FALSE, bl |-> Slice(1, 0)] >>
         /\ bbs' = <<>> /\ blks' = <<>> /\ hist' = <<>>

TInit == Init /\ h = 1 /\ l = 1

\* the SymHeap action named by the recorded operation
Act(e) == CASE e.op = "create" -> CreateBlock(e.t)
            [] e.op = "add" -> AddFact(e.b, e.s)
            [] e.op = "build" -> BuildBlock(e.b)
            [] e.op = "append" -> AppendBlk(e.k)
            [] e.op = "getblockid" -> GetBlockID(e.t, e.s)
            [] e.op = "seal" -> Seal(e.t)
            [] e.op = "reload" -> Reload(e.t)
            [] e.op = "xappend" -> CrossAppendRefused(e.k, e.t)
            [] e.op = "newbuilder" -> NewBuilder
            [] e.op = "buildroot" -> BuildRoot(e.b)

StepOp == /\ h <= Len(Trace) /\ l <= Len(Trace[h].hist)
          /\ Act(Trace[h].hist[l])
          /\ l' = l + 1 /\ h' = h
NextHist == /\ h <= Len(Trace) /\ l = Len(Trace[h].hist) + 1
            /\ PrintT(<<"CASE", ToJson([id |-> Trace[h].id, want |-> [t \in 1..Len(toks) |-> toks[t].want],
                                        bwant |-> [k \in 1..Len(blks) |-> blks[k].wantOwn]])>>)
            /\ Reset /\ h' = h + 1 /\ l' = 1
TNext == StepOp \/ NextHist
TSpec == TInit /\ [][TNext]_tvars
Done == h = Len(Trace) + 1
Report == Done => PrintT(<<"BAD", ToJson([bad |-> <<>>, n |-> Len(Trace)])>>)
=============================================================================
