------------------------------ MODULE TraceWire ------------------------------
(* Trace validation for C07: each event is one serialized token as decoded   *)
(* by the harness' INDEPENDENT protobuf reader (`wire`) together with what   *)
(* the caller supplied to the builders (`content`).  The specification       *)
(* decodes the wire form with Symbols!Resolve and requires WellFormed and    *)
(* Decode(wire) = content, block for block.                                   *)
EXTENDS SymbolRules, IOUtils

Trace == ndJsonDeserialize(IOEnv.TRACE)
VARIABLES l, bad
tvars == <<l, bad>>

\* a caller-supplied base symbol table (WithSymbols / Unmarshaler{Symbols}) behaves like the table of a block 0
TablesOf(e) == <<e.base>> \o [b \in 1..Len(e.wire.blocks) |-> e.wire.blocks[b].symbols]



RECURSIVE DTerm(_, _, _)
DTerm(t, tbs, b) ==
    CASE t.k \in {"var", "str"} -> IF Resolvable(t.x, tbs, b) THEN [k |-> t.k, x |-> Resolve(t.x, tbs, b)] ELSE [k |-> "unresolvable", x |-> ""]
      [] t.k = "set" -> [k |-> "set", e |-> {DTerm(t.e[i], tbs, b) : i \in 1..Len(t.e)}]
      [] OTHER -> t
CTerm(t) == IF t.k = "set" THEN [k |-> "set", e |-> {t.e[i] : i \in 1..Len(t.e)}] ELSE t

DPred(p, tbs, b) == [name |-> IF Resolvable(p.name, tbs, b) THEN Resolve(p.name, tbs, b) ELSE "<unresolvable>",
                        terms |-> [i \in 1..Len(p.terms) |-> DTerm(p.terms[i], tbs, b)]]
CPred(p) == [name |-> p.name, terms |-> [i \in 1..Len(p.terms) |-> CTerm(p.terms[i])]]

DOp(o, tbs, b) == CASE o.k = "value" -> [k |-> "value", t |-> DTerm(o.t, tbs, b)]
                       [] o.k = "unary" -> [k |-> "unary", o |-> IF o.c \in 0..(Len(UnaryNames) - 1) THEN UnaryNames[o.c + 1] ELSE "<bad code>"]
                       [] o.k = "binary" -> [k |-> "binary", o |-> IF o.c \in 0..(Len(BinaryNames) - 1) THEN BinaryNames[o.c + 1] ELSE "<bad code>"]
COp(o) == IF o.k = "value" THEN [k |-> "value", t |-> CTerm(o.t)] ELSE o

DRule(r, tbs, b) == [head |-> DPred(r.head, tbs, b),
                        body |-> [i \in 1..Len(r.body) |-> DPred(r.body[i], tbs, b)],
                        exprs |-> [i \in 1..Len(r.exprs) |-> [j \in 1..Len(r.exprs[i]) |-> DOp(r.exprs[i][j], tbs, b)]]]
CRule(r) == [head |-> CPred(r.head), body |-> [i \in 1..Len(r.body) |-> CPred(r.body[i])],
             exprs |-> [i \in 1..Len(r.exprs) |-> [j \in 1..Len(r.exprs[i]) |-> COp(r.exprs[i][j])]]]

DBlock(w, tbs, b) == [context |-> w.context,
                         facts |-> [i \in 1..Len(w.facts) |-> DPred(w.facts[i], tbs, b)],
                         rules |-> [i \in 1..Len(w.rules) |-> DRule(w.rules[i], tbs, b)],
                         checks |-> [i \in 1..Len(w.checks) |-> [j \in 1..Len(w.checks[i]) |-> DRule(w.checks[i][j], tbs, b)]]]
CBlock(c) == [context |-> c.context,
              facts |-> [i \in 1..Len(c.facts) |-> CPred(c.facts[i])],
              rules |-> [i \in 1..Len(c.rules) |-> CRule(c.rules[i])],
              checks |-> [i \in 1..Len(c.checks) |-> [j \in 1..Len(c.checks[i]) |-> CRule(c.checks[i][j])]]]

\* GetBlockID: index (authority = 0) of the first block whose facts contain the given fact; -1 when there is none
FirstBlockWith(content, p) ==
    LET hits == {b \in 1..Len(content.blocks) : \E i \in 1..Len(content.blocks[b].facts) : CPred(content.blocks[b].facts[i]) = p}
    IN IF hits = {} THEN 0 - 1 ELSE (CHOOSE b \in hits : \A c \in hits : b <= c) - 1

EventOK(e) ==
    LET tbs == TablesOf(e) IN
    /\ Len(e.wire.blocks) = Len(e.content.blocks)
    /\ WellFormedTables(tbs)
    /\ \A b \in 1..Len(e.wire.blocks) :
          /\ e.wire.blocks[b].version = 3
          /\ e.wire.blocks[b].unknown = 0
          /\ DBlock(e.wire.blocks[b], tbs, b + 1) = CBlock(e.content.blocks[b])
    \* accessors of the reloaded token: GetBlockID for every fact (and one absent fact), GetContext, Checks
    /\ \A k \in 1..Len(e.lookups) :
          e.lookups[k].got = FirstBlockWith(e.content, CPred(e.lookups[k].fact))
    /\ e.context = e.content.blocks[1].context
    /\ e.nchecks = [b \in 1..Len(e.content.blocks) |-> Len(e.content.blocks[b].checks)]

TInit == l = 1 /\ bad = <<>>
TNext == /\ l <= Len(Trace) /\ l' = l + 1
         /\ bad' = IF EventOK(Trace[l]) THEN bad ELSE Append(bad, l)
TSpec == TInit /\ [][TNext]_tvars
Done == l = Len(Trace) + 1
Report == Done => PrintT(<<"BAD", ToJson([bad |-> bad, n |-> Len(Trace)])>>)
=============================================================================
