------------------------------- MODULE Values -------------------------------
(***************************************************************************)
(* Typed Datalog values as tagged records (the tag decides which other     *)
(* field exists, so values of different types are never compared by TLC):  *)
(*   [t |-> "int",   i |-> BigInt!Int]       64-bit signed integer          *)
(*   [t |-> "str",   s |-> <<byte codes>>]   string (bytes of its UTF-8)    *)
(*   [t |-> "date",  d |-> magnitude]        unsigned 64-bit seconds        *)
(*   [t |-> "bytes", y |-> <<byte codes>>]                                  *)
(*   [t |-> "bool",  b |-> BOOLEAN]                                         *)
(*   [t |-> "set",   e |-> <<values>>]       elements, order irrelevant     *)
(***************************************************************************)
EXTENDS BigInt, FiniteSets

VInt(x)   == [t |-> "int", i |-> x]
VStr(s)   == [t |-> "str", s |-> s]
VDate(m)  == [t |-> "date", d |-> m]
VBytes(y) == [t |-> "bytes", y |-> y]
VBool(b)  == [t |-> "bool", b |-> b]
VSet(e)   == [t |-> "set", e |-> e]

Types == {"int", "str", "date", "bytes", "bool", "set"}

\* structural equality of two scalar values of the same type
ScalarEq(a, b) ==
    CASE a.t = "int"   -> a.i = b.i
      [] a.t = "str"   -> a.s = b.s
      [] a.t = "date"  -> a.d = b.d
      [] a.t = "bytes" -> a.y = b.y
      [] a.t = "bool"  -> a.b = b.b
      [] OTHER -> FALSE

\* equality of values of possibly different types (sets compared as sets, no nesting)
Mem(x, es) == \E i \in 1..Len(es) : es[i].t = x.t /\ x.t # "set" /\ ScalarEq(x, es[i])
SubsetSeq(xs, ys) == \A i \in 1..Len(xs) : Mem(xs[i], ys)
ValEq(a, b) == IF a.t # b.t THEN FALSE
               ELSE IF a.t = "set" THEN SubsetSeq(a.e, b.e) /\ SubsetSeq(b.e, a.e)
               ELSE ScalarEq(a, b)

\* a set value has no duplicate element (generators keep this; otherwise results are unspecified)
NoDup(es) == \A i, j \in 1..Len(es) : i # j => ~(es[i].t = es[j].t /\ ScalarEq(es[i], es[j]))
Homogeneous(es) == \A i, j \in 1..Len(es) : es[i].t = es[j].t

RECURSIVE Dedup(_)
Dedup(es) == IF es = <<>> THEN <<>>
             ELSE LET r == Dedup(Tail(es)) IN IF Mem(Head(es), r) THEN r ELSE <<Head(es)>> \o r
CardSeq(es) == Len(Dedup(es))

\* byte strings
IsPrefixB(p, s) == Len(p) <= Len(s) /\ SubSeq(s, 1, Len(p)) = p
IsSuffixB(p, s) == Len(p) <= Len(s) /\ SubSeq(s, Len(s) - Len(p) + 1, Len(s)) = p
ContainsB(s, p) == \E k \in 0..(Len(s) - Len(p)) : SubSeq(s, k + 1, k + Len(p)) = p
=============================================================================
