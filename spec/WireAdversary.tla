---------------------------- MODULE WireAdversary ----------------------------
(***************************************************************************)
(* C10: the space of adversarial tokens.  A case is a schema-valid         *)
(* protobuf envelope, validly signed by an attacker-chosen root key (so    *)
(* that decoding, verification and Datalog evaluation are all reached), in *)
(* which one or two FIELDS carry an adversarial value from the per-field   *)
(* boundary sets below.  The specification of the verifier is TOTAL: every *)
(* operation of the panel on every case ends in {token/value, error}; for  *)
(* the fields guarded by the decode-time gates named in the anchors the    *)
(* outcome is moreover fixed: Unmarshal (or verification) must REJECT.     *)
(* TLC enumerates all single and pairwise combinations and exports them;   *)
(* the harness encodes each with a raw protowire writer and runs the panel *)
(* in an isolated worker process.                                          *)
(***************************************************************************)
EXTENDS Integers, Sequences, FiniteSets, TLC, Json

\* field -> adversarial values (labels interpreted by the harness' raw encoder)
IdxVals == << "0", "27", "28", "1023", "1024", "1024+len", "2^31", "2^63", "2^64-1" >>
Fields == <<
  [f |-> "fact.name",        vals |-> IdxVals],
  [f |-> "fact.term.string", vals |-> IdxVals],
  [f |-> "rule.head.var",    vals |-> << "0", "28", "1024", "1024+len", "2^31", "2^32-1", "unbound" >>],
  [f |-> "rule.body.name",   vals |-> IdxVals],
  [f |-> "fact.term.kind",   vals |-> << "variable", "empty-oneof", "set-empty", "set-nested", "set-mixed", "set-bytes", "set-variable",
                                         "set-duplicates", "date-max", "int-min", "bytes-empty", "bytes-big" >>],
  [f |-> "check.expr",       vals |-> << "no-ops", "only-binary", "only-unary", "two-values", "1001-values", "unary-code-7", "binary-code-99", "unary-code-neg", "binary-code-neg",
                                         "op-empty-oneof", "unknown-variable", "div-zero", "min-div-minus1", "set-bytes-eq", "set-bytes-union",
                                         "regex-invalid", "regex-huge", "type-mix", "deep-parens", "union-mixed-contains", "union-mixed-eq", "inter-mixed-length" >>],
  [f |-> "check.shape",      vals |-> << "no-queries", "empty-query", "head-unbound", "many-queries" >>],
  [f |-> "rule.shape",       vals |-> << "no-body", "self-recursive", "head-var-missing", "matches-set-bytes", "cross-product" >>],
  [f |-> "block.version",    vals |-> << "absent", "0", "2", "4", "2^32-1" >>],
  [f |-> "block.symbols",    vals |-> << "default-dup", "cross-block-dup", "self-dup", "empty-string", "huge-string", "invalid-utf8" >>],
  [f |-> "block.extra",      vals |-> << "unknown-field", "context-huge", "facts-500" >>],
  [f |-> "envelope.blocks",  vals |-> << "0", "40" >>],
  [f |-> "envelope.key",     vals |-> << "len0", "len31", "len33", "alg1", "alg-big" >>],
  [f |-> "envelope.sig",     vals |-> << "len0", "len63", "len65" >>],
  [f |-> "proof",            vals |-> << "absent", "both", "secret-len0", "secret-len3", "secret-len31", "secret-len33", "secret-len64",
                                         "final-len0", "final-len63" >>],
  [f |-> "envelope.rootkeyid", vals |-> << "0", "2^32-1" >>],
  [f |-> "envelope.shape",   vals |-> << "no-authority", "authority-empty", "nextkey-missing", "block-not-protobuf" >> ] >>

Choice == {c \in (1..Len(Fields)) \X (1..20) : c[2] <= Len(Fields[c[1]].vals)}
Label(c) == [f |-> Fields[c[1]].f, v |-> Fields[c[1]].vals[c[2]]]

\* decode-time gates the PROPERTIES name (C07: unsupported schema versions; C01: key / signature / proof sizes; a well-formed
\* envelope): these values MUST make Unmarshal / verification fail.  Other malformed values (empty or nested sets, empty
\* oneofs, ...) only have to be handled without crashing -- whether they are refused is not part of any listed property.
Gated(l) == \/ l.f = "block.version"
            \/ l.f = "envelope.key" \/ l.f = "envelope.sig"
            \/ l.f = "proof" /\ l.v \in {"absent", "secret-len0", "secret-len3", "secret-len31", "secret-len33", "secret-len64", "final-len0", "final-len63"}
            \/ l.f = "envelope.shape"

Panel == << "unmarshal", "string", "verify", "verify-other-key", "authorize-allow", "authorize-rules", "authorize-queries", "query",
            "append", "seal", "serialize", "getblockid", "revocation-ids" >>

CONSTANT Pairs   \* TRUE: also every pair of choices on different fields

VARIABLES case, step, outcome
vars == <<case, step, outcome>>

PairSet == {<<p[1], p[2]>> : p \in {q \in Choice \X Choice : q[2][1] > q[1][1]}}
Init == /\ case \in {<<a>> : a \in Choice} \cup (IF Pairs THEN PairSet ELSE {})
        /\ step = 0 /\ outcome = "token"
IsGated == \E k \in 1..Len(case) : Gated(Label(case[k]))
\* one operation of the panel: total -- it yields a value or an error, never anything else
Op == /\ step < Len(Panel)
      /\ step' = step + 1
      /\ outcome' \in (IF outcome = "rejected" THEN {"rejected"}                         \* nothing to operate on
                       ELSE IF step < 3 /\ IsGated /\ step = 2 THEN {"rejected"}           \* at the latest, verification rejects a gated token
                       ELSE IF step < 2 /\ IsGated THEN {"rejected", "token"}
                       ELSE {"token", "error"})
      /\ UNCHANGED case
Next == Op
Spec == Init /\ [][Next]_vars /\ WF_vars(Next)

Total == outcome \in {"token", "error", "rejected"}
GatesHold == IsGated /\ step >= 3 => outcome = "rejected"
Terminates == <>(step = Len(Panel))
Export == step = 0 => PrintT(<<"CASE", ToJson([knobs |-> [k \in 1..Len(case) |-> Label(case[k])], gated |-> IsGated])>>)
=============================================================================
